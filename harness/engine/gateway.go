package engine

import (
	"net/http"
	"net/http/httptest"
	"sync"
	"time"

	dto "github.com/prometheus/client_model/go"
	"github.com/prometheus/common/expfmt"
)

// Gateway is a stand-in for a Prometheus push gateway on the loopback interface: it records what every push
// carried (sample counts of the iteration summary per result label) and answers with a configurable status.
type Gateway struct {
	srv    *httptest.Server
	mu     sync.Mutex
	Status int
	pushes []map[string]uint64
	state  map[string]uint64
	errs   int
	// RefuseFirst: the first n pushes are answered with 503 and leave the gateway's content as it was
	RefuseFirst int
	seen        int
	// DelayNth > 0: the n-th push is answered only after DelayFor (its content is taken in on arrival)
	DelayNth int
	DelayFor time.Duration
	// SlowAll > 0: every push takes that long to be processed; one that its sender has given up by then is not taken in
	SlowAll time.Duration
}

func NewGateway(status int) *Gateway {
	g := &Gateway{Status: status}
	g.srv = httptest.NewServer(http.HandlerFunc(func(w http.ResponseWriter, r *http.Request) {
		counts := map[string]uint64{}
		sawIteration := false
		dec := expfmt.NewDecoder(r.Body, expfmt.ResponseFormat(r.Header))
		bad := false
		for {
			var mf dto.MetricFamily
			if err := dec.Decode(&mf); err != nil {
				if err.Error() != "EOF" {
					bad = true
				}
				break
			}
			if mf.GetName() != IterationFamily {
				continue
			}
			sawIteration = true
			for _, m := range mf.GetMetric() {
				res, stage := "", ""
				for _, lp := range m.GetLabel() {
					switch lp.GetName() {
					case "result":
						res = lp.GetValue()
					case "stage":
						stage = lp.GetValue()
					}
				}
				if stage == "iteration" {
					counts[res] += m.GetSummary().GetSampleCount()
				}
			}
		}
		if g.SlowAll > 0 {
			select {
			case <-time.After(g.SlowAll):
			case <-r.Context().Done():
				return
			}
		}
		g.mu.Lock()
		g.seen++
		if g.seen <= g.RefuseFirst {
			g.mu.Unlock()
			w.WriteHeader(http.StatusServiceUnavailable)
			return
		}
		if bad {
			g.errs++
		}
		// a push gateway keeps one group per job: PUT replaces the whole group, POST only the families it carries
		if r.Method == http.MethodPut || sawIteration {
			g.state = counts
		}
		g.pushes = append(g.pushes, counts)
		slow := g.DelayNth > 0 && g.seen == g.DelayNth
		g.mu.Unlock()
		if slow {
			time.Sleep(g.DelayFor)
		}
		w.WriteHeader(g.Status)
	}))
	return g
}

func (g *Gateway) URL() string { return g.srv.URL }
func (g *Gateway) Close()      { g.srv.Close() }

// Pushes returns the number of pushes received and the iteration counts the gateway now holds for the job.
func (g *Gateway) Pushes() (int, map[string]uint64, int) {
	g.mu.Lock()
	defer g.mu.Unlock()
	if len(g.pushes) == 0 {
		return 0, nil, g.errs
	}
	return len(g.pushes), g.state, g.errs
}
