package engine

import (
	"fmt"
	"reflect"
	"time"

	"github.com/form3tech-oss/f1/v2/internal/envsettings"
	"github.com/form3tech-oss/f1/v2/internal/metrics"
	"github.com/form3tech-oss/f1/v2/internal/options"
	"github.com/form3tech-oss/f1/v2/internal/run"
	"github.com/form3tech-oss/f1/v2/internal/trigger/api"
	"github.com/form3tech-oss/f1/v2/internal/ui"
	"github.com/form3tech-oss/f1/v2/internal/workers"
	"github.com/form3tech-oss/f1/v2/pkg/f1/scenarios"
)

// The harness links against a handful of f1's internal constructors. They are called through
// reflection so that a change that only ADDS parameters to one of them (a realistic refactor) does
// not stop the harness from building: the given arguments are matched to the parameters in order by
// assignable type and parameters nothing matches get their zero value. Any other signature change
// still fails loudly (build error or panic with "harness:").
func callCtor(name string, fn any, args ...any) []reflect.Value {
	v := reflect.ValueOf(fn)
	t := v.Type()
	in := make([]reflect.Value, t.NumIn())
	next := 0
	for i := 0; i < t.NumIn(); i++ {
		pt := t.In(i)
		in[i] = reflect.Zero(pt)
		for j := next; j < len(args); j++ {
			if args[j] == nil {
				if k := pt.Kind(); k == reflect.Pointer || k == reflect.Interface || k == reflect.Map || k == reflect.Slice || k == reflect.Func {
					next = j + 1
					break
				}
				continue
			}
			av := reflect.ValueOf(args[j])
			if av.Type().AssignableTo(pt) {
				in[i] = av
				next = j + 1
				break
			}
		}
	}
	if next != len(args) {
		panic(fmt.Sprintf("harness: %s no longer takes the arguments the harness has for it (%v)", name, t))
	}
	return v.Call(in)
}

// NewActiveScenario calls workers.NewActiveScenario.
func NewActiveScenario(args ...any) *workers.ActiveScenario {
	out := callCtor("workers.NewActiveScenario", workers.NewActiveScenario, args...)
	return out[0].Interface().(*workers.ActiveScenario)
}

// NewPoolManager calls workers.New.
func NewPoolManager(maxIterations uint64, as *workers.ActiveScenario) *workers.PoolManager {
	out := callCtor("workers.New", workers.New, maxIterations, as)
	return out[0].Interface().(*workers.PoolManager)
}

// NewRun calls run.NewRun.
func NewRun(o options.RunOptions, sc *scenarios.Scenarios, trig *api.Trigger, completion time.Duration, settings envsettings.Settings, m *metrics.Metrics, out *ui.Output) (*run.Run, error) {
	res := callCtor("run.NewRun", run.NewRun, o, sc, trig, completion, settings, m, out)
	var err error
	if len(res) > 1 && !res[1].IsNil() {
		err = res[1].Interface().(error)
	}
	fr, _ := res[0].Interface().(*run.Run)
	return fr, err
}

// TakeTotals asks the result to take its final totals (Result.GetTotals on the tree this was written against; a tree that
// renamed the method - to Final, say - is still served, by name).
func TakeTotals(res *run.Result) {
	v := reflect.ValueOf(res)
	for _, name := range []string{"GetTotals", "Final", "Totals", "TakeTotals"} {
		if m := v.MethodByName(name); m.IsValid() && m.Type().NumIn() == 0 {
			m.Call(nil)
			return
		}
	}
	panic("harness: run.Result has no method that takes the final totals")
}
