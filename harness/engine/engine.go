// Package engine builds and runs real f1 runs (run.NewRun/Do) for the monitors: it owns the
// event log, the output capture, the trigger construction and the metrics registry.
package engine

import (
	"context"
	"fmt"
	f1log "github.com/form3tech-oss/f1/v2/internal/log"
	"github.com/form3tech-oss/f1/v2/pkg/f1"
	"log/slog"
	"os"
	"path/filepath"
	"sort"
	"strings"
	"sync"
	"sync/atomic"
	"time"

	"github.com/prometheus/client_golang/prometheus"
	dto "github.com/prometheus/client_model/go"
	"github.com/spf13/pflag"

	"github.com/form3tech-oss/f1/v2/internal/envsettings"
	"github.com/form3tech-oss/f1/v2/internal/metrics"
	"github.com/form3tech-oss/f1/v2/internal/options"
	"github.com/form3tech-oss/f1/v2/internal/run"
	"github.com/form3tech-oss/f1/v2/internal/trigger/api"
	"github.com/form3tech-oss/f1/v2/internal/trigger/constant"
	"github.com/form3tech-oss/f1/v2/internal/trigger/file"
	"github.com/form3tech-oss/f1/v2/internal/trigger/gaussian"
	"github.com/form3tech-oss/f1/v2/internal/trigger/ramp"
	"github.com/form3tech-oss/f1/v2/internal/trigger/staged"
	"github.com/form3tech-oss/f1/v2/internal/trigger/users"
	"github.com/form3tech-oss/f1/v2/internal/ui"
	"github.com/form3tech-oss/f1/v2/internal/workers"
	"github.com/form3tech-oss/f1/v2/pkg/f1/scenarios"
	f1testing "github.com/form3tech-oss/f1/v2/pkg/f1/testing"
)

// ---------------------------------------------------------------- event log

type Event struct {
	Seq  int64         `json:"seq"`
	Kind string        `json:"kind"`
	H    string        `json:"h,omitempty"`  // handle identity
	ID   string        `json:"id,omitempty"` // iteration id
	V    int64         `json:"v,omitempty"`
	S    string        `json:"s,omitempty"`
	T    time.Duration `json:"t"`
}

// Log is the event log: one atomic sequence, one monotonic clock, one mutex-guarded slice.
type Log struct {
	// OutDelay, when set, is called with the text of every captured output record before it is
	// appended (lets a case emulate a slow terminal or log sink).
	OutDelay func(text string)
	mu       sync.Mutex
	evs      []Event
	seq      atomic.Int64
	base     time.Time
}

func NewLog() *Log { return &Log{base: time.Now()} }

func (l *Log) Now() time.Duration { return time.Since(l.base) }

func (l *Log) Add(kind, h, id string, v int64, s string) int64 {
	l.mu.Lock()
	n := l.seq.Add(1)
	l.evs = append(l.evs, Event{Seq: n, Kind: kind, H: h, ID: id, V: v, S: s, T: time.Since(l.base)})
	l.mu.Unlock()
	return n
}

func (l *Log) Len() int {
	l.mu.Lock()
	defer l.mu.Unlock()
	return len(l.evs)
}

func (l *Log) Events() []Event {
	l.mu.Lock()
	defer l.mu.Unlock()
	out := make([]Event, len(l.evs))
	copy(out, l.evs)
	return out
}

func (l *Log) Count(kind string) int {
	l.mu.Lock()
	defer l.mu.Unlock()
	n := 0
	for i := range l.evs {
		if l.evs[i].Kind == kind {
			n++
		}
	}
	return n
}

// Contains reports whether any captured output or log record contains sub.
func (l *Log) Contains(sub string) bool {
	l.mu.Lock()
	defer l.mu.Unlock()
	for i := range l.evs {
		if strings.Contains(l.evs[i].S, sub) {
			return true
		}
	}
	return false
}

func HandleID(t *f1testing.T) string { return fmt.Sprintf("%p", t) }

// ---------------------------------------------------------------- output capture

type captureHandler struct {
	log   *Log
	attrs []slog.Attr
	group string
	quiet bool // a handler that is not enabled for any level (logs go nowhere)
}

func (h *captureHandler) Enabled(context.Context, slog.Level) bool { return !h.quiet }

func (h *captureHandler) Handle(_ context.Context, r slog.Record) error {
	var sb strings.Builder
	sb.WriteString(r.Level.String())
	sb.WriteString("|")
	sb.WriteString(r.Message)
	write := func(prefix string, a slog.Attr) {}
	var rec func(prefix string, a slog.Attr)
	rec = func(prefix string, a slog.Attr) {
		if a.Value.Kind() == slog.KindGroup {
			for _, g := range a.Value.Group() {
				rec(prefix+a.Key+".", g)
			}
			return
		}
		sb.WriteString("|")
		sb.WriteString(prefix + a.Key)
		sb.WriteString("=")
		sb.WriteString(a.Value.String())
	}
	_ = write
	for _, a := range h.attrs {
		rec("", a)
	}
	r.Attrs(func(a slog.Attr) bool { rec("", a); return true })
	if h.log.OutDelay != nil {
		h.log.OutDelay(sb.String())
	}
	h.log.Add("out.log", "", "", 0, sb.String())
	return nil
}

func (h *captureHandler) WithAttrs(as []slog.Attr) slog.Handler {
	n := *h
	n.attrs = append(append([]slog.Attr{}, h.attrs...), as...)
	return &n
}

func (h *captureHandler) WithGroup(string) slog.Handler { return h }

type captureWriter struct {
	log  *Log
	kind string
}

func (w *captureWriter) Write(p []byte) (int, error) {
	if w.log.OutDelay != nil {
		w.log.OutDelay(string(p))
	}
	w.log.Add(w.kind, "", "", 0, string(p))
	return len(p), nil
}

// NewOutput returns a ui.Output whose every record and printed line lands in the event log.
func NewOutput(l *Log, interactive bool) *ui.Output {
	return NewOutputQuiet(l, interactive, false)
}

// NewOutputQuiet is NewOutput with a logger whose handler is disabled for every level when quiet is set.
func NewOutputQuiet(l *Log, interactive, quiet bool) *ui.Output {
	logger := slog.New(&captureHandler{log: l, quiet: quiet})
	printer := ui.NewPrinter(&captureWriter{l, "out.print"}, &captureWriter{l, "out.eprint"})
	return ui.NewOutput(logger, printer, interactive, true)
}

// ---------------------------------------------------------------- run spec

type Spec struct {
	Mode string `json:"mode"` // constant staged ramp gaussian users file custom

	Rate         string  `json:"rate,omitempty"`
	Stages       string  `json:"stages,omitempty"`
	FreqMS       int     `json:"freq_ms,omitempty"`
	StartRate    string  `json:"start_rate,omitempty"`
	EndRate      string  `json:"end_rate,omitempty"`
	RampMS       int     `json:"ramp_ms,omitempty"`
	Volume       float64 `json:"volume,omitempty"`
	RepeatMS     int     `json:"repeat_ms,omitempty"`
	PeakMS       int     `json:"peak_ms,omitempty"`
	StddevMS     int     `json:"stddev_ms,omitempty"`
	Weights      string  `json:"weights,omitempty"`
	Distribution string  `json:"distribution,omitempty"`
	Jitter       float64 `json:"jitter,omitempty"`
	YAML         string  `json:"yaml,omitempty"`

	// custom mode: tick interval and scripted values (the last one repeats)
	CustomIntervalUS int   `json:"custom_interval_us,omitempty"`
	CustomRates      []int `json:"custom_rates,omitempty"`
	TriggerDurMS     int   `json:"trigger_dur_ms,omitempty"`

	Concurrency        int               `json:"concurrency"`
	MaxIterations      uint64            `json:"max_iterations,omitempty"`
	MaxDurationMS      int               `json:"max_duration_ms"`
	CompletionMS       int               `json:"completion_ms,omitempty"`
	MaxFailures        uint64            `json:"max_failures,omitempty"`
	MaxFailuresRate    int               `json:"max_failures_rate,omitempty"`
	IgnoreDropped      bool              `json:"ignore_dropped,omitempty"`
	Labels             map[string]string `json:"labels,omitempty"`
	Interactive        bool              `json:"interactive,omitempty"`
	Verbose            bool              `json:"verbose,omitempty"`
	NoIterationMetrics bool              `json:"no_iteration_metrics,omitempty"` // metrics instance built with iteration metrics disabled
	// Combine > 0: the scenario is registered as f1.CombineScenarios(scenario, <Combine-1 passing components>)
	Combine int `json:"combine,omitempty"`
	// GlobalMetrics: the run uses the process-wide metrics instance (as the command line does), re-initialised for it
	GlobalMetrics bool `json:"global_metrics,omitempty"`
	// PushGateway: URL of a push gateway the run pushes its metrics to
	PushGateway string `json:"push_gateway,omitempty"`
	QuietLogger bool   `json:"quiet_logger,omitempty"` // the slog handler is disabled for every level
	// mode "builder": the mode's own command-line builder (constant | staged | ramp) and the flags given to it
	BuilderName string   `json:"builder_name,omitempty"`
	BuilderArgs []string `json:"builder_args,omitempty"`
	// F1Logs: "json" | "text": the run logs through f1's own handler of that format (internal/log, what F1_LOG_FORMAT selects)
	// instead of the capturing handler; the bytes land in the event log as out.f1log
	Scenario string `json:"scenario,omitempty"`
	F1Logs   string `json:"f1_logs,omitempty"`
}

func ms(n int) time.Duration { return time.Duration(n) * time.Millisecond }

// Hooks lets a monitor observe rate evaluations and the trigger call.
type Hooks struct {
	// OnRate is called at entry of every rate evaluation of rate-driven modes built here
	// (constant, staged, ramp, gaussian with explicit wrapping; custom). It may replace the value.
	OnRate func(k int, now time.Time, v int) int
	// OnTrigger is called at entry of the WorkTriggerer with its context.
	OnTrigger func(ctx context.Context)
	// OnTriggerReturn is called when the WorkTriggerer returns.
	OnTriggerReturn func()
	// CustomRate overrides the scripted custom rate function.
	CustomRate func(k int, now time.Time) int
	// Registry, when set, is the scenario registry to use (the same *scenarios.Scenario object is then
	// shared by consecutive runs, as with one f1.F1 instance executed twice).
	Registry *scenarios.Scenarios
	// StageRate (mode "filestages") replaces the value of evaluation k of rate stage i (v is f1's own value).
	StageRate func(stage, k int, now time.Time, v int) int
}

// Run is one executed f1 run and everything observed about it.
type Run struct {
	Spec     Spec
	Log      *Log
	Registry *prometheus.Registry
	Metrics  *metrics.Metrics
	Result   *run.Result
	Err      error
	NewErr   error
	Trigger  *api.Trigger
	Options  options.RunOptions

	DoCallSeq, DoReturnSeq int64
	TCall, TReturn         time.Duration
	RateEvals              atomic.Int64
}

// BuildTrigger constructs the real trigger for the spec.
func BuildTrigger(spec *Spec, out *ui.Output, hooks *Hooks, r *Run) (*api.Trigger, error) {
	wrapRate := func(fn api.RateFunction) api.RateFunction {
		return func(now time.Time) int {
			v := fn(now)
			k := 0
			if r != nil {
				k = int(r.RateEvals.Add(1)) - 1
			}
			if hooks != nil && hooks.OnRate != nil {
				v = hooks.OnRate(k, now, v)
			}
			return v
		}
	}
	dist := spec.Distribution
	if dist == "" {
		dist = "none"
	}
	var trig *api.Trigger
	switch spec.Mode {
	case "builder":
		// the trigger exactly as the command line builds it: the mode's own builder, its flag set parsed from BuilderArgs
		var b api.Builder
		switch spec.BuilderName {
		case "constant":
			b = constant.Rate()
		case "staged":
			b = staged.Rate()
		case "ramp":
			b = ramp.Rate()
		default:
			return nil, fmt.Errorf("harness: unknown builder %q", spec.BuilderName)
		}
		if err := b.Flags.Parse(spec.BuilderArgs); err != nil {
			return nil, err
		}
		t, err := b.New(b.Flags)
		if err != nil {
			return nil, err
		}
		trig = t
	case "constant":
		rates, err := constant.CalculateConstantRate(spec.Jitter, spec.Rate, dist)
		if err != nil {
			return nil, err
		}
		trig = &api.Trigger{Trigger: api.NewIterationWorker(rates.IterationDuration, wrapRate(rates.Rate)), Description: "constant " + spec.Rate, DryRun: rates.Rate}
	case "staged":
		rates, err := staged.CalculateStagedRate(spec.Jitter, ms(spec.FreqMS), spec.Stages, dist, nil)
		if err != nil {
			return nil, err
		}
		trig = &api.Trigger{Trigger: api.NewIterationWorker(rates.IterationDuration, wrapRate(rates.Rate)), Description: "staged " + spec.Stages, DryRun: rates.Rate, Duration: rates.Duration}
	case "ramp":
		rates, err := ramp.CalculateRampRate(spec.StartRate, spec.EndRate, dist, ms(spec.RampMS), spec.Jitter)
		if err != nil {
			return nil, err
		}
		// like the real builder: no trigger duration
		trig = &api.Trigger{Trigger: api.NewIterationWorker(rates.IterationDuration, wrapRate(rates.Rate)), Description: "ramp", DryRun: rates.Rate}
	case "gaussian":
		rates, err := gaussian.CalculateGaussianRate(spec.Volume, spec.Jitter, ms(spec.RepeatMS), ms(spec.FreqMS), ms(spec.PeakMS), ms(spec.StddevMS), spec.Weights, dist)
		if err != nil {
			return nil, err
		}
		trig = &api.Trigger{Trigger: api.NewIterationWorker(rates.IterationDuration, wrapRate(rates.Rate)), Description: "gaussian", DryRun: rates.Rate, Duration: rates.Duration}
	case "users":
		b := users.Rate()
		t, err := b.New(b.Flags)
		if err != nil {
			return nil, err
		}
		trig = t
	case "file":
		dir := os.Getenv("TMPDIR")
		if dir == "" {
			dir = os.TempDir()
		}
		f, err := os.CreateTemp(dir, "verif-*.yaml")
		if err != nil {
			return nil, err
		}
		f.WriteString(spec.YAML)
		f.Close()
		defer os.Remove(f.Name())
		b := file.Rate(out)
		fs := pflag.NewFlagSet("file", pflag.ContinueOnError)
		if err := fs.Parse([]string{f.Name()}); err != nil {
			return nil, err
		}
		t, err := b.New(fs)
		if err != nil {
			return nil, err
		}
		trig = t
		// the file supplies the options
		spec.Scenario = t.Options.Scenario
		spec.MaxDurationMS = int(t.Options.MaxDuration / time.Millisecond)
		spec.Concurrency = t.Options.Concurrency
		spec.MaxIterations = t.Options.MaxIterations
		spec.MaxFailures = t.Options.MaxFailures
		spec.MaxFailuresRate = t.Options.MaxFailuresRate
		spec.IgnoreDropped = t.Options.IgnoreDropped
	case "filestages":
		// like "file", but through ParseConfigFile + the real stages worker, so that each stage's rate can be observed
		rs, err := file.ParseConfigFile([]byte(spec.YAML), time.Now())
		if err != nil {
			return nil, err
		}
		for i := range rs.Stages {
			if rs.Stages[i].Rate == nil {
				continue
			}
			i := i
			inner := rs.Stages[i].Rate
			var k atomic.Int64
			rs.Stages[i].Rate = func(now time.Time) int {
				v := inner(now)
				n := int(k.Add(1)) - 1
				if r != nil {
					r.RateEvals.Add(1)
				}
				if hooks != nil && hooks.StageRate != nil {
					v = hooks.StageRate(i, n, now, v)
				}
				return v
			}
		}
		td, mf, mfr := file.VerifTotals(rs)
		trig = &api.Trigger{Trigger: file.VerifStagesWorker(rs), Description: "file stages", Duration: td}
		spec.Scenario = rs.Scenario
		spec.MaxDurationMS = int(rs.MaxDuration / time.Millisecond)
		spec.Concurrency = rs.Concurrency
		spec.MaxIterations = rs.MaxIterations
		spec.MaxFailures, spec.MaxFailuresRate = mf, mfr
		spec.IgnoreDropped = rs.IgnoreDropped
	case "custom":
		interval := time.Duration(spec.CustomIntervalUS) * time.Microsecond
		var k atomic.Int64
		rateFn := func(now time.Time) int {
			i := int(k.Add(1)) - 1
			if hooks != nil && hooks.CustomRate != nil {
				return hooks.CustomRate(i, now)
			}
			if len(spec.CustomRates) == 0 {
				return 0
			}
			if i >= len(spec.CustomRates) {
				i = len(spec.CustomRates) - 1
			}
			return spec.CustomRates[i]
		}
		trig = &api.Trigger{Trigger: api.NewIterationWorker(interval, wrapRate(rateFn)), Description: "custom", Duration: ms(spec.TriggerDurMS)}
	default:
		return nil, fmt.Errorf("harness: unknown mode %q", spec.Mode)
	}
	inner := trig.Trigger
	trig.Trigger = func(ctx context.Context, o *ui.Output, w *workers.PoolManager, opts options.RunOptions) {
		if hooks != nil && hooks.OnTrigger != nil {
			hooks.OnTrigger(ctx)
		}
		inner(ctx, o, w, opts)
		if hooks != nil && hooks.OnTriggerReturn != nil {
			hooks.OnTriggerReturn()
		}
	}
	return trig, nil
}

// Prepare builds a Run (real run.NewRun) without executing it.
func Prepare(spec Spec, l *Log, scenarioFn f1testing.ScenarioFn, hooks *Hooks, reuse *metrics.Metrics) (*Run, *run.Run) {
	if spec.Scenario == "" {
		spec.Scenario = "verifScenario"
	}
	r := &Run{Spec: spec, Log: l}
	out := NewOutputQuiet(l, spec.Interactive, spec.QuietLogger)
	if spec.F1Logs != "" {
		printer := ui.NewPrinter(&captureWriter{l, "out.print"}, &captureWriter{l, "out.eprint"})
		out = ui.NewOutput(f1log.NewLogger(&captureWriter{l, "out.f1log"}, f1log.NewConfig().WithJSONFormat(spec.F1Logs == "json")), printer, spec.Interactive, true)
	}
	trig, err := BuildTrigger(&spec, out, hooks, r)
	r.Spec = spec
	if err != nil {
		r.NewErr = err
		return r, nil
	}
	r.Trigger = trig
	if spec.Combine > 0 {
		parts := []f1testing.ScenarioFn{scenarioFn}
		for i := 1; i < spec.Combine; i++ {
			parts = append(parts, func(*f1testing.T) f1testing.RunFn { return func(*f1testing.T) {} })
		}
		scenarioFn = f1.CombineScenarios(parts...)
	}
	if spec.GlobalMetrics && reuse == nil {
		// (initialised once per process: static labels are those of the first initialisation)
		metrics.InitWithStaticMetrics(true, nil)
		reuse = metrics.Instance()
		reuse.IterationMetricsEnabled = !spec.NoIterationMetrics
	}
	if reuse != nil {
		r.Metrics = reuse
		r.Registry = reuse.Registry
	} else {
		r.Registry = prometheus.NewRegistry()
		r.Metrics = metrics.NewInstance(r.Registry, !spec.NoIterationMetrics, spec.Labels)
	}
	var sc *scenarios.Scenarios
	if hooks != nil && hooks.Registry != nil {
		sc = hooks.Registry
		if existing := sc.GetScenario(spec.Scenario); existing == nil {
			sc.Add(&scenarios.Scenario{Name: spec.Scenario, ScenarioFn: scenarioFn})
		} else {
			// same registered object (its RunFn of the previous run is still set); only the setup
			// function is pointed at this run's closure so that the monitor logs into this run's log
			existing.ScenarioFn = scenarioFn
		}
	} else {
		sc = scenarios.New().Add(&scenarios.Scenario{Name: spec.Scenario, ScenarioFn: scenarioFn})
	}
	r.Options = options.RunOptions{
		Scenario:        spec.Scenario,
		MaxDuration:     ms(spec.MaxDurationMS),
		Concurrency:     spec.Concurrency,
		MaxIterations:   spec.MaxIterations,
		MaxFailures:     spec.MaxFailures,
		MaxFailuresRate: spec.MaxFailuresRate,
		Verbose:         spec.Verbose,
		IgnoreDropped:   spec.IgnoreDropped,
	}
	completion := ms(spec.CompletionMS)
	if completion == 0 {
		completion = 10 * time.Second
	}
	settings := envsettings.Settings{Log: envsettings.Log{FilePath: "/dev/null"}}
	settings.Prometheus.PushGateway = spec.PushGateway
	fr, err := NewRun(r.Options, sc, trig, completion, settings, r.Metrics, out)
	if err != nil {
		r.NewErr = err
		return r, nil
	}
	return r, fr
}

// Execute prepares and runs Do(ctx), logging the call and return events.
func Execute(ctx context.Context, spec Spec, l *Log, scenarioFn f1testing.ScenarioFn, hooks *Hooks, reuse *metrics.Metrics) *Run {
	r, fr := Prepare(spec, l, scenarioFn, hooks, reuse)
	return Do(ctx, r, fr)
}

// Do executes a prepared run, logging the call and return events.
func Do(ctx context.Context, r *Run, fr *run.Run) *Run {
	l := r.Log
	if fr == nil {
		return r
	}
	r.TCall = l.Now()
	r.DoCallSeq = l.Add("do.call", "", "", 0, "")
	res, err := fr.Do(ctx)
	r.DoReturnSeq = l.Add("do.return", "", "", 0, "")
	r.TReturn = l.Now()
	r.Result = res
	r.Err = err
	return r
}

// ---------------------------------------------------------------- metrics gather

type Series struct {
	Labels map[string]string
	Count  uint64
	Sum    float64
}

// Gather returns family name -> series.
func Gather(reg *prometheus.Registry) (map[string][]Series, error) {
	mfs, err := reg.Gather()
	if err != nil {
		return nil, err
	}
	out := map[string][]Series{}
	for _, mf := range mfs {
		for _, m := range mf.GetMetric() {
			s := Series{Labels: map[string]string{}}
			for _, lp := range m.GetLabel() {
				s.Labels[lp.GetName()] = lp.GetValue()
			}
			if mf.GetType() == dto.MetricType_SUMMARY {
				s.Count = m.GetSummary().GetSampleCount()
				s.Sum = m.GetSummary().GetSampleSum()
			}
			out[mf.GetName()] = append(out[mf.GetName()], s)
		}
	}
	return out, nil
}

const (
	IterationFamily = "form3_loadtest_iteration"
	SetupFamily     = "form3_loadtest_setup"
)

// IterationCounts sums the iteration family per result label (stage=iteration only).
func IterationCounts(fams map[string][]Series) map[string]uint64 {
	out := map[string]uint64{}
	for _, s := range fams[IterationFamily] {
		if s.Labels["stage"] != "iteration" {
			continue
		}
		out[s.Labels["result"]] += s.Count
	}
	return out
}

func SortedKeys[V any](m map[string]V) []string {
	ks := make([]string, 0, len(m))
	for k := range m {
		ks = append(ks, k)
	}
	sort.Strings(ks)
	return ks
}

// TempYAML writes a config to the child's TMPDIR and returns its path.
func TempYAML(content string) (string, error) {
	dir := os.Getenv("TMPDIR")
	if dir == "" {
		dir = os.TempDir()
	}
	f, err := os.CreateTemp(dir, "verif-*.yaml")
	if err != nil {
		return "", err
	}
	defer f.Close()
	if _, err := f.WriteString(content); err != nil {
		return "", err
	}
	return filepath.Clean(f.Name()), nil
}
