package engine

import (
	"errors"
	"fmt"
	"strconv"
	"sync"
	"sync/atomic"
	"time"

	"github.com/stretchr/testify/assert"

	f1testing "github.com/form3tech-oss/f1/v2/pkg/f1/testing"
)

// Behaviour kinds of an iteration body / setup / cleanup.
const (
	BPass = iota
	BFail
	BFailNow
	BError
	BErrorf
	BFatal
	BFatalf
	BAssert
	BRequire
	BPanicError
	BPanicString
	BPanicInt
	BPanicStruct
	BNilMap
	BIndex
	BNilDeref
	BPanicIsTrue
	BPanicNil
	BPanicWrappedFailNowText
	BPanicSlice
	BPanicSliceError
	BPanicMap
	BErrorNil
	BFatalNil
	BOtherFailNow
	BOtherRequire
	BPanicEmpty
	BHelperPanic
	BTwoHelpers
	BPanicBadStringer
	BHelperFailNow
	BLogrusPanic
	BRecoverFailNow
	BOwnCheckResults
	BPanicTypedNilError
	BPanicErrorIsPanics
	BHelperPassThenErrorf
	BHelperPassThenPanic
	NumBehaviours
	// BHelperPanicThenFailNow is not among the behaviours drawn at random: the helper goroutine it leaves behind uses the
	// handle with no ordering against the end of the iteration (the program's own race), so it runs in the plain flavour only
	BHelperPanicThenFailNow = NumBehaviours
)

// OtherHandle, when set, is the handle the BOther* behaviours act on (typically the one captured in setup);
// when nil they act on the function's own handle.
var OtherHandle atomic.Pointer[f1testing.T]

var BehaviourNames = []string{"pass", "Fail", "FailNow", "Error", "Errorf", "Fatal", "Fatalf", "assert", "require",
	"panic(error)", "panic(string)", "panic(int)", "panic(struct)", "nil-map-write", "index-out-of-range", "nil-deref",
	"panic(error-with-permissive-Is)", "panic(nil)", "panic(error-named-FailNow)", "panic([]int)", "panic(slice-typed error)", "panic(map)",
	"Error(nil)", "Fatal(nil)", "FailNow-on-the-setup-handle", "require-on-the-setup-handle",
	"panic(\"\")", "panic-in-helper-goroutine-guarded-by-CheckResults", "two-guarded-helpers-sharing-one-done-channel",
	"panic(value-whose-String-panics)", "FailNow-in-helper-goroutine-guarded-by-CheckResults",
	"Logger().Panic", "FailNow-recovered-by-the-function-itself", "panic-under-the-function's-own-CheckResults",
	"panic(typed-nil-error)", "panic(error-whose-Is-panics)", "passing-guarded-helper-then-Errorf", "passing-guarded-helper-then-panic", "guarded-helper-panics-then-the-function-stops-without-waiting-for-it"}

// Stops reports whether the behaviour ends the function at that point.
func Stops(kind int) bool {
	switch kind {
	case BPass, BFail, BError, BErrorf, BAssert, BHelperPanic, BTwoHelpers, BHelperFailNow, BRecoverFailNow, BOwnCheckResults, BHelperPassThenErrorf:
		return false
	}
	return true
}

// Fails reports whether the behaviour must make the iteration fail.
func Fails(kind int) bool { return kind != BPass }

type permissiveErr struct{}

func (permissiveErr) Error() string { return "permissive error" }
func (permissiveErr) Is(error) bool { return true }

// HelperSignalsLost counts guarded helpers whose completion signal did not arrive within 10 s.
var HelperSignalsLost atomic.Int64

type badStringer struct{ name string }

func (b *badStringer) String() string { return "bad stringer " + b.name }

// sliceErr is an error of a non-comparable dynamic type (like validator.ValidationErrors).
type sliceErr []string

func (e sliceErr) Error() string { return "slice error" }

// ptrErr is an error whose Error method needs its receiver.
type ptrErr struct{ msg string }

func (e *ptrErr) Error() string { return e.msg }

func typedNil() error {
	var e *ptrErr
	return e
}

// isPanicsErr is an error whose Is method (consulted by errors.Is) panics.
type isPanicsErr struct{ m map[string]int }

func (e *isPanicsErr) Error() string { return "error whose Is panics" }
func (e *isPanicsErr) Is(error) bool { e.m["x"]++; return false }

type someStruct struct {
	A int
	B string
}

// Behave performs the behaviour on the handle. It returns normally only for non-stopping kinds.
func Behave(t *f1testing.T, kind int) {
	switch kind {
	case BPass:
	case BFail:
		t.Fail()
	case BFailNow:
		t.FailNow()
	case BError:
		t.Error(errors.New("planned error"))
	case BErrorf:
		t.Errorf("planned %s", "errorf")
	case BFatal:
		t.Fatal(errors.New("planned fatal"))
	case BFatalf:
		t.Fatalf("planned %s", "fatalf")
	case BAssert:
		assert.True(t, false, "planned failed assertion")
	case BRequire:
		t.Require().True(false, "planned failed require")
	case BPanicError:
		panic(errors.New("planned panic error"))
	case BPanicString:
		panic("planned panic string")
	case BPanicInt:
		panic(42)
	case BPanicStruct:
		panic(someStruct{1, "x"})
	case BNilMap:
		var m map[string]int
		m["a"] = 1
	case BIndex:
		s := []int{1}
		i := 5
		_ = s[i]
	case BNilDeref:
		var p *someStruct
		_ = p.A
	case BPanicIsTrue:
		panic(permissiveErr{})
	case BPanicNil:
		var e error
		panic(e)
	case BPanicWrappedFailNowText:
		panic(errors.New("FailNow"))
	case BPanicSlice:
		panic([]int{1, 2, 3})
	case BPanicSliceError:
		panic(sliceErr{"a", "b"})
	case BPanicMap:
		panic(map[string]int{"a": 1})
	case BErrorNil:
		// Error dereferences its argument: a nil error panics inside the call, which stops and fails the function
		t.Error(nil)
	case BFatalNil:
		t.Fatal(nil)
	case BOtherFailNow:
		// a stopping failure raised through another handle still stops and fails the function it is raised in
		if o := OtherHandle.Load(); o != nil {
			o.FailNow()
		}
		t.FailNow()
	case BPanicEmpty:
		panic("")
	case BHelperPanic:
		// work done in a helper goroutine that is guarded the way f1 guards the body itself; the function
		// waits for the guard's signal and then carries on: the helper's panic fails it
		done := make(chan struct{})
		go func() {
			defer f1testing.CheckResults(t, done)
			panic("planned panic in a helper goroutine")
		}()
		<-done
	case BPanicBadStringer:
		// a panic value with a String method that itself panics (a nil pointer with a pointer-receiver String)
		var v *badStringer
		panic(v)
	case BHelperFailNow:
		// a guarded helper that ends through FailNow: the guard still signals, the function carries on and is failed
		done := make(chan struct{})
		go func() {
			defer f1testing.CheckResults(t, done)
			t.FailNow()
		}()
		select {
		case <-done:
		case <-time.After(10 * time.Second):
			HelperSignalsLost.Add(1)
			t.Fail()
		}
	case BTwoHelpers:
		// fan-out: two guarded helpers report on one channel, one receive per helper; one of them panics
		done := make(chan struct{})
		go func() {
			defer f1testing.CheckResults(t, done)
			var m map[string]int
			m["x"] = 1
		}()
		go func() {
			defer f1testing.CheckResults(t, done)
			panic(errors.New("planned panic in the second helper"))
		}()
		<-done
		<-done
	case BLogrusPanic:
		// the logrus logger of the handle at its Panic level: logs and panics with a *logrus.Entry
		t.Logger().Panic("planned logrus panic")
	case BRecoverFailNow:
		// the function swallows the unwinding of its own FailNow (a deferred recover in a helper of its own) and returns
		// normally: the mark was made before the unwinding
		func() {
			defer func() { _ = recover() }()
			t.FailNow()
		}()
	case BOwnCheckResults:
		// the function guards a section of its own with CheckResults, the way f1 guards the whole of it
		func() {
			defer f1testing.CheckResults(t, nil)
			panic("planned panic under the function's own CheckResults")
		}()
	case BPanicTypedNilError:
		// the classic: a function returns a nil *T as an error, the caller sees err != nil and panics with it; the value's
		// Error method dereferences its receiver
		if err := typedNil(); err != nil {
			panic(err)
		}
	case BHelperPanicThenFailNow:
		// fail fast: a guarded helper goroutine panics, the function notices something is wrong and stops at once without
		// waiting for the helper's completion signal (the helper stays parked on its signal: the program's own leak)
		done := make(chan struct{})
		go func() {
			defer f1testing.CheckResults(t, done)
			panic("planned panic in a guarded helper goroutine")
		}()
		time.Sleep(3 * time.Millisecond)
		t.FailNow()
	case BHelperPassThenErrorf, BHelperPassThenPanic:
		// a piece of work handed to a guarded helper goroutine that passes; the function waits for it and fails afterwards
		done := make(chan struct{})
		go func() {
			defer f1testing.CheckResults(t, done)
		}()
		<-done
		if kind == BHelperPassThenPanic {
			panic("planned panic after a guarded helper had passed")
		}
		t.Errorf("planned %s after a guarded helper had passed", "errorf")
	case BPanicErrorIsPanics:
		panic(&isPanicsErr{})
	case BOtherRequire:
		if o := OtherHandle.Load(); o != nil {
			o.Require().True(false, "planned failed require on the other handle")
		}
		t.Require().True(false, "planned failed require")
	default:
		panic(fmt.Sprintf("harness: unknown behaviour %d", kind))
	}
}

// IDOf parses the iteration id handed to the body (0 if not a number).
func IDOf(t *f1testing.T) uint64 {
	n, err := strconv.ParseUint(t.Iteration, 10, 64)
	if err != nil {
		return 0
	}
	return n
}

// Tracker is the online monitor shared by the body wrappers: in-flight count, live handles,
// id uniqueness, ground-truth counters.
type Tracker struct {
	Inflight   atomic.Int64
	HighWater  atomic.Int64
	Started    atomic.Int64
	Ended      atomic.Int64
	PlanPass   atomic.Int64
	PlanFail   atomic.Int64
	TaintSeen  atomic.Int64 // bodies that found T.Failed()==true at entry
	mu         sync.Mutex
	live       map[*f1testing.T]uint64
	ids        map[uint64]int
	handles    map[*f1testing.T]int
	Violations []string
	MaxID      uint64
	BadIDs     []string
	// kept: the id strings exactly as the bodies received them (first 20000), re-read when the run is over:
	// an id a program has kept (a map key, a log field) stays the id it was given
	kept []keptID
}

type keptID struct {
	s  string
	id uint64
}

func NewTracker() *Tracker {
	return &Tracker{live: map[*f1testing.T]uint64{}, ids: map[uint64]int{}, handles: map[*f1testing.T]int{}}
}

func (k *Tracker) violate(format string, a ...any) {
	if len(k.Violations) < 20 {
		k.Violations = append(k.Violations, fmt.Sprintf(format, a...))
	}
}

// Enter registers a body entry; the returned func must be deferred.
func (k *Tracker) Enter(t *f1testing.T) func() {
	n := k.Inflight.Add(1)
	for {
		h := k.HighWater.Load()
		if n <= h || k.HighWater.CompareAndSwap(h, n) {
			break
		}
	}
	k.Started.Add(1)
	if t.Failed() {
		k.TaintSeen.Add(1)
	}
	id := IDOf(t)
	k.mu.Lock()
	if other, dup := k.live[t]; dup {
		k.violate("handle %p handed to iteration %d while iteration %d is still executing on it", t, id, other)
	}
	k.live[t] = id
	k.handles[t]++
	if id == 0 {
		k.BadIDs = append(k.BadIDs, t.Iteration)
	} else {
		if len(k.kept) < 20000 {
			k.kept = append(k.kept, keptID{t.Iteration, id})
		}
		k.ids[id]++
		if k.ids[id] > 1 {
			k.violate("iteration id %d observed by %d invocations", id, k.ids[id])
		}
		if id > k.MaxID {
			k.MaxID = id
		}
	}
	k.mu.Unlock()
	return func() {
		k.mu.Lock()
		delete(k.live, t)
		k.mu.Unlock()
		k.Inflight.Add(-1)
		k.Ended.Add(1)
	}
}

func (k *Tracker) Handles() int {
	k.mu.Lock()
	defer k.mu.Unlock()
	return len(k.handles)
}

// IDsGapless reports whether the observed ids are exactly 1..n and returns n.
func (k *Tracker) IDsGapless() (bool, int, string) {
	k.mu.Lock()
	defer k.mu.Unlock()
	n := len(k.ids)
	if len(k.BadIDs) > 0 {
		return false, n, fmt.Sprintf("non-numeric iteration ids %v", k.BadIDs)
	}
	for i := uint64(1); i <= uint64(n); i++ {
		if k.ids[i] != 1 {
			return false, n, fmt.Sprintf("%d distinct ids observed, id %d observed %d times (max id %d)", n, i, k.ids[i], k.MaxID)
		}
	}
	return true, n, ""
}

func (k *Tracker) Problems() []string {
	k.mu.Lock()
	defer k.mu.Unlock()
	out := append([]string{}, k.Violations...)
	for _, kp := range k.kept {
		if strconv.FormatUint(kp.id, 10) != kp.s {
			out = append(out, fmt.Sprintf("the id string handed to iteration %d reads %q after the run: ids kept by the program changed under it", kp.id, kp.s))
			break
		}
	}
	return out
}
