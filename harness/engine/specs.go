package engine

import (
	"fmt"
	"time"
)

// RateSpec returns a spec of the given rate-driven mode that offers about perTick requests
// every tickMS milliseconds for a long time (the run is expected to be ended by something else).
func RateSpec(mode string, perTick, tickMS, concurrency int) Spec {
	s := Spec{Mode: mode, Concurrency: concurrency, Distribution: "none", MaxDurationMS: 60000}
	switch mode {
	case "constant":
		s.Rate = fmt.Sprintf("%d/%dms", perTick, tickMS)
	case "staged":
		s.Stages = fmt.Sprintf("0s:%d,90s:%d", perTick, perTick)
		s.FreqMS = tickMS
	case "ramp":
		s.StartRate = fmt.Sprintf("%d/%dms", perTick, tickMS)
		s.EndRate = fmt.Sprintf("%d/%dms", perTick*2+1, tickMS)
		s.RampMS = 90000
	case "gaussian":
		repeat := 10 * time.Minute
		s.RepeatMS = int(repeat / time.Millisecond)
		s.FreqMS = tickMS
		s.PeakMS = s.RepeatMS / 2
		s.StddevMS = s.RepeatMS
		s.Volume = float64(perTick) * float64(s.RepeatMS) / float64(tickMS)
	case "users":
	case "custom":
		s.CustomIntervalUS = tickMS * 1000
		s.CustomRates = []int{perTick}
	}
	return s
}

var RateModes = []string{"constant", "staged", "ramp", "gaussian", "custom"}
