package engine

import (
	"fmt"
	"time"
)

// RateSpec returns a spec of the given rate-driven mode that offers about perTick requests
// every tickMS milliseconds for a long time (the run is expected to be ended by something else).
func RateSpec(mode string, perTick, tickMS, concurrency int) Spec {
	s := Spec{Mode: mode, Concurrency: concurrency, Distribution: "none", MaxDurationMS: 60000}
	switch mode {
	case "constant":
		s.Rate = fmt.Sprintf("%d/%dms", perTick, tickMS)
	case "staged":
		s.Stages = fmt.Sprintf("0s:%d,90s:%d", perTick, perTick)
		s.FreqMS = tickMS
	case "ramp":
		s.StartRate = fmt.Sprintf("%d/%dms", perTick, tickMS)
		s.EndRate = fmt.Sprintf("%d/%dms", perTick*2+1, tickMS)
		s.RampMS = 90000
	case "gaussian":
		repeat := 10 * time.Minute
		s.RepeatMS = int(repeat / time.Millisecond)
		s.FreqMS = tickMS
		s.PeakMS = s.RepeatMS / 2
		s.StddevMS = s.RepeatMS
		s.Volume = float64(perTick) * float64(s.RepeatMS) / float64(tickMS)
	case "users":
	case "custom":
		s.CustomIntervalUS = tickMS * 1000
		s.CustomRates = []int{perTick}
	}
	return s
}

var RateModes = []string{"constant", "staged", "ramp", "gaussian", "custom"}

// FileSpanSpec returns a config-file spec with several short stages (users, users, constant) followed
// by a long users stage, meant to be used with bodies that last longer than a stage so that
// iterations are still in flight when the next stage's pool starts.
func FileSpanSpec(concurrency int, limit uint64) Spec {
	y := fmt.Sprintf("scenario: verifScenario\nlimits:\n  max-duration: 60s\n  concurrency: %d\n  max-iterations: %d\n  ignore-dropped: true\ndefault:\n  distribution: none\n  jitter: 0\nstages:\n"+
		"- duration: 150ms\n  mode: users\n- duration: 150ms\n  mode: users\n- duration: 150ms\n  mode: constant\n  rate: %d/10ms\n- duration: 150ms\n  mode: users\n- duration: 40s\n  mode: users\n",
		concurrency, limit, concurrency)
	return Spec{Mode: "file", YAML: y, IgnoreDropped: true}
}

// SpanSleep is the body-duration pattern for FileSpanSpec: every third iteration outlives a stage.
func SpanSleep(id uint64) {
	if id%3 == 0 {
		time.Sleep(170 * time.Millisecond)
		return
	}
	time.Sleep(2 * time.Millisecond)
}
