package engine

import (
	"runtime"
	"sync"
	"sync/atomic"
	"time"

	"github.com/prometheus/client_golang/prometheus"

	"github.com/form3tech-oss/f1/v2/internal/log"
	"github.com/form3tech-oss/f1/v2/internal/metrics"
	"github.com/form3tech-oss/f1/v2/internal/progress"
	"github.com/form3tech-oss/f1/v2/internal/verifhook"
	"github.com/form3tech-oss/f1/v2/internal/workers"
	"github.com/form3tech-oss/f1/v2/pkg/f1/scenarios"
	f1testing "github.com/form3tech-oss/f1/v2/pkg/f1/testing"
)

// PoolEnv is a real ActiveScenario + PoolManager with private stats and metrics, for
// component-level cases.
type PoolEnv struct {
	Stats    *progress.Stats
	Metrics  *metrics.Metrics
	Registry *prometheus.Registry
	Active   *workers.ActiveScenario
	Manager  *workers.PoolManager
	Scenario *scenarios.Scenario
}

// NewPoolEnv builds the environment and runs the real Setup.
func NewPoolEnv(name string, fn f1testing.ScenarioFn, maxIterations uint64, labels map[string]string) *PoolEnv {
	reg := prometheus.NewRegistry()
	m := metrics.NewInstance(reg, true, labels)
	stats := &progress.Stats{}
	logger := log.NewDiscardLogger()
	sc := &scenarios.Scenario{Name: name, ScenarioFn: fn}
	as := NewActiveScenario(sc, m, stats, logger, log.NewSlogLogrusLogger(logger))
	as.Setup()
	return &PoolEnv{Stats: stats, Metrics: m, Registry: reg, Active: as, Manager: NewPoolManager(maxIterations, as), Scenario: sc}
}

// ---------------------------------------------------------------- hook controller

// HookCtl is the handler installed into f1's verifhook: scripted parking of the n-th arrival
// at a site, and seeded perturbation (yield / spin / short sleep) to widen race windows.
type HookCtl struct {
	mu      sync.Mutex
	parks   map[string][]*Park
	counts  map[string]*atomic.Int64
	perturb map[string]float64
	onSite  map[string]func(n int64)
	seed    atomic.Uint64
	Reached sync.Map // site -> *atomic.Int64
}

// Park describes one scripted rendezvous: the Nth arrival at Site blocks until Release.
type Park struct {
	Site    string
	N       int64
	Arrived chan struct{}
	release chan struct{}
	once    sync.Once
}

func (p *Park) Release() { p.once.Do(func() { close(p.release) }) }

func NewHookCtl(seed uint64) *HookCtl {
	h := &HookCtl{parks: map[string][]*Park{}, counts: map[string]*atomic.Int64{}, perturb: map[string]float64{}, onSite: map[string]func(n int64){}}
	h.seed.Store(seed | 1)
	return h
}

// ParkNth registers a scripted park (n counts arrivals at that site from 1).
func (h *HookCtl) ParkNth(site string, n int64) *Park {
	p := &Park{Site: site, N: n, Arrived: make(chan struct{}), release: make(chan struct{})}
	h.mu.Lock()
	h.parks[site] = append(h.parks[site], p)
	h.mu.Unlock()
	return p
}

// OnSite registers a callback run (outside the controller's lock) at every arrival at the site.
func (h *HookCtl) OnSite(site string, fn func(n int64)) {
	h.mu.Lock()
	h.onSite[site] = fn
	h.mu.Unlock()
}

// Perturb makes arrivals at the site yield/spin/sleep with the given probability.
func (h *HookCtl) Perturb(site string, prob float64) {
	h.mu.Lock()
	h.perturb[site] = prob
	h.mu.Unlock()
}

func (h *HookCtl) rnd() uint64 {
	for {
		x := h.seed.Load()
		y := x
		y ^= y << 13
		y ^= y >> 7
		y ^= y << 17
		if h.seed.CompareAndSwap(x, y) {
			return y
		}
	}
}

func (h *HookCtl) counter(site string) *atomic.Int64 {
	if v, ok := h.Reached.Load(site); ok {
		return v.(*atomic.Int64)
	}
	v, _ := h.Reached.LoadOrStore(site, new(atomic.Int64))
	return v.(*atomic.Int64)
}

func (h *HookCtl) handle(site string) {
	n := h.counter(site).Add(1)
	h.mu.Lock()
	var park *Park
	for _, p := range h.parks[site] {
		if p.N == n {
			park = p
			break
		}
	}
	cb := h.onSite[site]
	prob := h.perturb[site]
	if prob == 0 {
		prob = h.perturb["*"]
	}
	h.mu.Unlock()
	if cb != nil {
		cb(n)
	}
	if park != nil {
		close(park.Arrived)
		<-park.release
		return
	}
	if prob > 0 {
		r := h.rnd()
		if float64(r%10000)/10000 < prob {
			switch (r >> 20) % 4 {
			case 0:
				runtime.Gosched()
			case 1:
				t0 := time.Now()
				d := time.Duration((r>>24)%50) * time.Microsecond
				for time.Since(t0) < d {
				}
			case 2:
				time.Sleep(time.Duration((r>>24)%200) * time.Microsecond)
			default:
				time.Sleep(time.Duration((r>>24)%2000) * time.Microsecond)
			}
		}
	}
}

// Install makes this controller the process-wide handler; Uninstall removes it and releases parks.
func (h *HookCtl) Install() { verifhook.SetHandler(h.handle) }

func (h *HookCtl) Uninstall() {
	verifhook.SetHandler(nil)
	h.mu.Lock()
	for _, ps := range h.parks {
		for _, p := range ps {
			p.Release()
		}
	}
	h.mu.Unlock()
}

func (h *HookCtl) ReachedCounts() map[string]int64 {
	out := map[string]int64{}
	h.Reached.Range(func(k, v any) bool {
		out[k.(string)] = v.(*atomic.Int64).Load()
		return true
	})
	return out
}
