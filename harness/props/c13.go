package props

import (
	"fmt"
	"github.com/form3tech-oss/f1/v2/internal/trigger/constant"
	"github.com/form3tech-oss/f1/v2/internal/trigger/staged"
	"math"
	"strconv"
	"time"

	"github.com/form3tech-oss/f1/v2/internal/trigger/api"
	"github.com/form3tech-oss/f1/v2/internal/trigger/file"
	"github.com/form3tech-oss/f1/v2/verifharness/core"
)

// C13 — jitter varies each tick but preserves the long-run total.

type c13Params struct {
	Seqs   int `json:"seqs"`
	MaxLen int `json:"max_len"`
}

func init() {
	core.Register(&core.Property{
		ID: "C13",
		Rule: "cases are seeded batches of (jitter %, rate sequence) pairs; the oracle tracks the carried balance b itself and checks every output against the rate plus b; " +
			"a sequence is non-trivial when jitter > 0 and some output differs from its rate; distinct = distinct (jitter class, rate profile, length class) classes observed. The random factor is f1's global math/rand and cannot be steered: bounds hold for every outcome, so sampled outcomes suffice",
		Assumptions: []string{
			"jitter in [0,100), rates non-negative",
			"fixed bound on the running difference: |b| <= (j*M + 0.5)/(1-j), M the largest rate so far (fixed point of the carry recurrence)",
		},
		Gen: func(tier string, seed uint64) []core.Case {
			n, per, ml := 96, 60, 20000
			if tier == "thorough" {
				n, per, ml = 256, 60, 100000
			}
			var cs []core.Case
			for i := 0; i < n; i++ {
				cs = append(cs, core.MkCase("C13", "jitter", i, seed, c13Params{Seqs: per, MaxLen: ml}))
			}
			// two command lines in one process, the first with --jitter, the second (another trigger) without: no jitter is
			// the identity
			for i := 0; i < 4; i++ {
				cs = append(cs, core.MkCase("C13", "flagstwice", i, seed, map[string]int{"order": i}))
			}
			for i := 0; i < map[string]int{"quick": 4, "thorough": 24}[tier]; i++ {
				cs = append(cs, core.MkCase("C13", "flagforms", i, seed, map[string]int{"i": i}))
			}
			return cs
		},
		Kinds:  map[string]core.RunFunc{"jitter": c13Run, "flagstwice": c13FlagsTwice, "flagforms": c13FlagForms},
		Floors: map[string]int64{"seqs_nontrivial": 300, "ticks": 100000},
	})
}

func c13Run(c *core.Case, o *core.Outcome) {
	var p c13Params
	c.Params(&p)
	r := c.Rng("jitter")
	minF, maxF := math.Inf(1), math.Inf(-1)
	worst := 0.0
	for si := 0; si < p.Seqs && o.Verdict != core.Violated; si++ {
		var j float64
		jc := ""
		switch r.IntN(7) {
		case 0:
			j, jc = 0, "zero"
		case 1:
			j, jc = 0.01, "tiny"
		case 2:
			j, jc = 99.9, "max"
		case 3:
			j, jc = 50, "half"
		case 4:
			j, jc = 90+r.Float64()*9.9, "high"
		default:
			j, jc = r.Float64()*60, "mid"
		}
		length := 500 + r.IntN(p.MaxLen-500)
		if r.IntN(3) > 0 {
			length = 500 + r.IntN(3000)
		}
		profile := r.IntN(6)
		if j == 0 && r.IntN(2) == 0 {
			// zero jitter is the identity for every rate an int can hold
			profile = 6
		} else if j != 0 && r.IntN(8) == 0 {
			// rates of billions per tick
			profile = 7
		}
		if j != 0 && profile < 6 && r.IntN(10) == 0 {
			// an enormous volume early on (1e15 per tick for ten ticks), then an ordinary trickle: the trickle is still delivered
			profile = 8
		}
		pname := []string{"zero", "constant", "bursts", "ramp", "random", "huge", "extreme", "billions", "afterglow"}[profile]
		konst := 1 + r.IntN(500)
		seqAt := func(k int) int {
			switch profile {
			case 0:
				return 0
			case 1:
				return konst
			case 2:
				if k%50 < 3 {
					return 10000 + konst
				}
				return 0
			case 3:
				return k % 977
			case 4:
				return int((uint64(k)*2654435761 + uint64(konst)) % 3000)
			case 8:
				if k < 10 {
					return 1_000_000_000_000_000
				}
				if k < 60 {
					return 1_000_000_000_000_000 >> (k - 9)
				}
				return 1 + konst%3
			case 7:
				return 3_000_000_000 + (k%5)*700_000_000 + konst
			case 6:
				return []int{1<<53 + 1, 1<<60 + 12345, math.MaxInt64 - konst, math.MaxInt64, 1<<62 + 1, konst, 1<<53 - 1}[k%7]
			default:
				if k%7 == 0 {
					return 1_000_000
				}
				return konst
			}
		}
		k := 0
		cur := 0
		var askedFor time.Time
		rateFn := func(t time.Time) int { askedFor = t; cur = seqAt(k); k++; return cur }
		fn := api.WithJitter(rateFn, j)
		jm := j / 100
		b, M := 0.0, 0.0
		changed := false
		var sumR, sumY float64
		desc := fmt.Sprintf("jitter=%g profile=%s len=%d const=%d", j, pname, length, konst)
		// the tick times are whatever the caller's clock says: distinct, frozen, repeated or going backwards
		tsPat := r.IntN(6)
		// one sequence in eight takes its jitter from a config-file stage instead of calling WithJitter itself: a
		// ramp (or constant) stage with `jitter: j`; the un-jittered rate is the same stage parsed with jitter 0
		fileStage := ""
		if profile != 6 && profile != 7 && profile != 8 && r.IntN(8) == 0 {
			fileStage = pick(r, "ramp", "staged", "constant", "staged", "gaussian", "gaussian")
			freq := pick(r, "100ms", "250ms", "1s", "2s")
			a, bb := 1+r.IntN(400), 1+r.IntN(4000)
			if bb == a {
				// a ramp between equal rates is refused by design ("try using the constant mode")
				bb++
			}
			stage := func(jit float64) api.RateFunction {
				body := fmt.Sprintf("  mode: ramp\n  start-rate: %d/1s\n  end-rate: %d/1s\n", a, bb)
				if fileStage == "constant" {
					body = fmt.Sprintf("  mode: constant\n  rate: %d/1s\n", a)
				}
				if fileStage == "staged" {
					body = fmt.Sprintf("  mode: staged\n  stages: \"0s:%d,%ds:%d\"\n  iteration-frequency: %s\n", a, length, bb, freq)
				}
				if fileStage == "gaussian" {
					// a bell per 10-minute window, about a..a+bb iterations per one-second tick at its peak
					body = fmt.Sprintf("  mode: gaussian\n  volume: %d\n  repeat: 10m\n  iteration-frequency: 1s\n  peak: %ds\n  standard-deviation: %ds\n  weights: \"\"\n", (a+bb)*300, 100+a%400, 60+bb%240)
				}
				y := fmt.Sprintf("scenario: s\nlimits:\n  max-duration: 100h\n  concurrency: 1\n  max-iterations: 0\n  ignore-dropped: true\ndefault:\n  distribution: none\n  jitter: 7\nstages:\n- duration: %ds\n%s  jitter: %g\n", length, body, jit)
				rs, err := file.ParseConfigFile([]byte(y), time.Unix(0, 0))
				if err != nil || len(rs.Stages) != 1 || rs.Stages[0].Rate == nil {
					return nil
				}
				return rs.Stages[0].Rate
			}
			jittered, plain := stage(j), stage(0)
			if jittered == nil || plain == nil {
				o.Violate("jitter-file-stage:"+desc, "a %s stage with jitter %g was not accepted (%s)", fileStage, j, desc)
				return
			}
			fn = func(ts time.Time) int { cur = plain(ts); k++; return jittered(ts) }
			tsPat = 0
			pname = "file-" + fileStage
			desc = fmt.Sprintf("jitter=%g profile=%s (%d -> %d per second) len=%d", j, pname, a, bb, length)
		}
		tsName := []string{"distinct", "frozen", "pairs", "backwards", "zero", "sparse"}[tsPat]
		desc += " timestamps=" + tsName
		tsAt := func(i int) time.Time {
			switch tsPat {
			case 1:
				return time.Unix(1700000000, 0)
			case 2:
				return time.Unix(int64(i/2), 0)
			case 3:
				return time.Unix(int64(1_000_000-i/3), 0)
			case 4:
				return time.Time{}
			case 5:
				// ticks minutes or hours apart (a tick interval may be that long)
				return time.Unix(int64(i)*int64(61+konst*7), 0)
			}
			return time.Unix(int64(i), 0)
		}
		for i := 0; i < length; i++ {
			y := fn(tsAt(i))
			rk := float64(cur)
			if fileStage == "" && !askedFor.Equal(tsAt(i)) {
				// the rate is the rate of this tick's instant, whatever instants were seen before
				o.Violate("jitter-instant:"+desc, "tick %d is for the instant %v, the underlying rate was evaluated for %v (%s)", i, tsAt(i).UTC(), askedFor.UTC(), desc)
				return
			}
			if k != i+1 {
				o.Violate("jitter-calls:"+desc, "underlying rate evaluated %d times after %d ticks (%s)", k, i+1, desc)
				return
			}
			if y < 0 {
				o.Violate("jitter-negative:"+desc, "tick %d: negative output %d (%s)", i, y, desc)
				return
			}
			if j == 0 {
				if y != cur {
					o.Violate("jitter-identity:"+desc, "tick %d: zero jitter returned %d for rate %d", i, y, cur)
					return
				}
				sumR += rk
				sumY += float64(y)
				continue
			}
			if rk > M {
				M = rk
			}
			req := rk + b
			if req >= 0 {
				tol := jm*req + 0.5 + 1e-6*(1+req)
				if math.Abs(float64(y)-req) > tol {
					o.Violate("jitter-single:"+desc, "tick %d: output %d is not within %g%% (+rounding) of rate %d + carried %.4f = %.4f (%s)", i, y, j, cur, b, req, desc)
					return
				}
				if req > 0.5 {
					f := float64(y) / req
					if f < minF {
						minF = f
					}
					if f > maxF {
						maxF = f
					}
				}
			} else if y != 0 {
				o.Violate("jitter-neg-req:"+desc, "tick %d: output %d although rate plus carried remainder is negative (%.4f) (%s)", i, y, req, desc)
				return
			}
			if y != cur {
				changed = true
			}
			b = req - float64(y)
			sumR += rk
			sumY += float64(y)
			bound := (jm*M+0.5)/(1-jm) + 1e-6*(1+M)
			if math.Abs(b) > bound {
				o.Violate("jitter-balance:"+desc, "tick %d: running totals differ by %.4f (rates %.0f, outputs %.0f), fixed bound %.4f (%s)", i, b, sumR, sumY, bound, desc)
				return
			}
			if bound > 0 && math.Abs(b)/bound > worst {
				worst = math.Abs(b) / bound
			}
		}
		if math.Abs((sumR-sumY)-b) > 1e-3*(1+M) {
			o.Violate("jitter-bookkeeping:"+desc, "totals differ by %.4f but tracked balance is %.4f (%s)", sumR-sumY, b, desc)
			return
		}
		o.Events += int64(length)
		o.AddObs("ticks", int64(length))
		o.AddObs("seqs", 1)
		if changed {
			o.AddObs("seqs_nontrivial", 1)
			lc := "short"
			if length > 5000 {
				lc = "long"
			}
			o.Sig("j=%s:profile=%s:len=%s:ts=%s", jc, pname, lc, tsName)
		} else if j == 0 {
			o.Sig("identity:profile=%s", pname)
		}
		if si == 0 {
			o.Sample = map[string]any{"sequence": desc, "final_balance": b, "sum_rates": sumR, "sum_outputs": sumY}
		}
	}
	if !math.IsInf(minF, 1) {
		o.MaxObs("max:observed_factor_max_permille", int64(maxF*1000))
		o.MaxObs("max:observed_factor_min_below_one_permille", int64((1-minF)*1000))
	}
	o.MaxObs("max:worst_balance_over_bound_permille", int64(worst*1000))
}

// c13FlagForms: the jitter given on a command line in every spelling pflag accepts for a float flag - "--jitter 0",
// "--jitter=0", "-j 0", "-j=2.5" ... - is the jitter applied: 0 is the identity, j percent keeps every tick within what j
// percent and its carried remainder allow.
func c13FlagForms(c *core.Case, o *core.Outcome) {
	r := c.Rng("forms")
	type bl struct {
		name string
		mk   func() api.Builder
		args []string
		want int
	}
	builders := []bl{
		{"constant", constant.Rate, []string{"--rate", "1000/1s", "--distribution", "none"}, 1000},
		{"staged", staged.Rate, []string{"--stages", "0s:700,1h:700", "--distribution", "none", "-f", "1s"}, 700},
	}
	for rep := 0; rep < 40 && o.Verdict == core.Held; rep++ {
		b := builders[r.IntN(len(builders))]
		j := pick(r, 0.0, 0.0, 2, 2.5, 5, 20)
		js := strconv.FormatFloat(j, 'f', -1, 64)
		form := pick(r, []string{"--jitter", js}, []string{"--jitter=" + js}, []string{"-j", js}, []string{"-j=" + js}, []string{"-j" + js})
		args := append(append([]string{}, b.args...), form...)
		if r.IntN(2) == 0 {
			args = append(append([]string{}, form...), b.args...)
		}
		desc := fmt.Sprintf("%s %v", b.name, args)
		bb := b.mk()
		if err := bb.Flags.Parse(args); err != nil {
			o.Violate("flagforms-rejected:"+desc, "valid flags rejected: %v (%s)", err, desc)
			return
		}
		if rest := bb.Flags.Args(); len(rest) != 0 {
			o.Violate("flagforms-stray:"+desc, "the flag set left %v unparsed: a flag's value was taken for a positional argument (%s)", rest, desc)
			return
		}
		tr, err := bb.New(bb.Flags)
		if err != nil || tr == nil || tr.DryRun == nil {
			o.Violate("flagforms-rejected:"+desc, "valid flags rejected: %v (%s)", err, desc)
			return
		}
		jm, M := j/100, float64(b.want)
		carried := (jm*M + 0.5) / (1 - jm)
		bound := carried + jm*(M+carried) + 0.5 + 1e-6
		base := time.Now()
		for k := 0; k < 300; k++ {
			v := tr.DryRun(base.Add(time.Duration(k) * time.Second))
			if math.Abs(float64(v)-M) > bound {
				o.Violate("flagforms:"+desc, "tick %d requests %d for a rate of %d; jitter %s%% and its carried remainder allow a difference of at most %.1f (%s)", k, v, b.want, js, bound, desc)
				return
			}
		}
		o.Events += 300
		o.AddObs("ticks", 300)
		o.Sig("flagforms:%s:j=%s:form=%d", b.name, js, len(form))
	}
	o.AddObs("seqs", 1)
}

// c13FlagsTwice: the trigger builders as the command line uses them, twice in one process: first a trigger with a non-zero
// --jitter, then a freshly built trigger of another (or the same) mode without the flag. The second trigger's rate is its
// un-jittered profile, exactly, on every tick.
func c13FlagsTwice(c *core.Case, o *core.Outcome) {
	var pp map[string]int
	c.Params(&pp)
	type bl struct {
		name string
		mk   func() api.Builder
		args []string
		want int
	}
	builders := []bl{
		{"constant", constant.Rate, []string{"--rate", "1000/1s", "--distribution", "none"}, 1000},
		{"staged", staged.Rate, []string{"--stages", "0s:700,1h:700", "--distribution", "none", "-f", "1s"}, 700},
	}
	first, second := builders[pp["order"]%2], builders[(pp["order"]/2+1)%2]
	desc := fmt.Sprintf("first %s --jitter 50, then %s without --jitter", first.name, second.name)
	b1 := first.mk()
	if err := b1.Flags.Parse(append(append([]string{}, first.args...), "--jitter", "50")); err != nil {
		o.Inconc("harness: %v", err)
		return
	}
	t1, err := b1.New(b1.Flags)
	if err != nil || t1 == nil || t1.DryRun == nil {
		o.Violate("flagstwice-rejected:"+desc, "valid flags rejected: %v (%s)", err, desc)
		return
	}
	base := time.Now()
	differs := false
	for k := 0; k < 200; k++ {
		if t1.DryRun(base.Add(time.Duration(k)*time.Second)) != first.want {
			differs = true
		}
	}
	b2 := second.mk()
	if err := b2.Flags.Parse(second.args); err != nil {
		o.Inconc("harness: %v", err)
		return
	}
	t2, err := b2.New(b2.Flags)
	if err != nil || t2 == nil || t2.DryRun == nil {
		o.Violate("flagstwice-rejected:"+desc, "valid flags rejected: %v (%s)", err, desc)
		return
	}
	for k := 0; k < 200; k++ {
		if v := t2.DryRun(base.Add(time.Duration(k) * time.Second)); v != second.want {
			o.Violate("flagstwice:"+desc, "tick %d of the second trigger requests %d, its profile says %d: a trigger built without --jitter is not the identity after an earlier command line used --jitter (%s)", k, v, second.want, desc)
			return
		}
	}
	o.Events += 400
	o.AddObs("ticks", 400)
	if differs {
		o.AddObs("seqs_nontrivial", 1)
		o.Sig("flagstwice:%s-then-%s", first.name, second.name)
	}
}
