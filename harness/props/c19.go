package props

import (
	"bytes"
	"context"
	"encoding/json"
	"errors"
	"fmt"
	"io"
	"log/slog"
	"math"
	"os"
	"regexp"
	"strconv"
	"strings"
	"sync"
	"time"

	f1log "github.com/form3tech-oss/f1/v2/internal/log"
	"github.com/form3tech-oss/f1/v2/internal/metrics"
	"github.com/form3tech-oss/f1/v2/internal/options"
	"github.com/form3tech-oss/f1/v2/internal/progress"
	"github.com/form3tech-oss/f1/v2/internal/run"
	"github.com/form3tech-oss/f1/v2/internal/run/views"
	"github.com/form3tech-oss/f1/v2/internal/ui"
	f1testing "github.com/form3tech-oss/f1/v2/pkg/f1/testing"
	"github.com/form3tech-oss/f1/v2/verifharness/core"
	"github.com/form3tech-oss/f1/v2/verifharness/engine"
	"sync/atomic"
)

// C19 — summary and progress output state the same numbers as the result they render.

type c19Params struct {
	N int `json:"n"`
}

type mapHandler struct {
	level slog.Level
	msg   string
	attrs map[string]string
	n     int
}

func (h *mapHandler) Enabled(context.Context, slog.Level) bool { return true }
func (h *mapHandler) Handle(_ context.Context, r slog.Record) error {
	h.level, h.msg, h.n = r.Level, r.Message, h.n+1
	h.attrs = map[string]string{}
	var rec func(prefix string, a slog.Attr)
	rec = func(prefix string, a slog.Attr) {
		if a.Value.Kind() == slog.KindGroup {
			for _, g := range a.Value.Group() {
				rec(prefix+a.Key+".", g)
			}
			return
		}
		h.attrs[prefix+a.Key] = a.Value.String()
	}
	r.Attrs(func(a slog.Attr) bool { rec("", a); return true })
	return nil
}
func (h *mapHandler) WithAttrs([]slog.Attr) slog.Handler { return h }
func (h *mapHandler) WithGroup(string) slog.Handler      { return h }

// c19F1Handlers logs the view through f1's own handlers (JSON and text, as configured by internal/log) and reads
// the counts back from the bytes they write.
func c19F1Handlers(o *core.Outcome, logFn func(*slog.Logger), su, fa, dr uint64, desc string) bool {
	var jb, tb bytes.Buffer
	func() {
		defer func() {
			if pv := recover(); pv != nil {
				o.Violate("log-panic:"+desc, "logging through f1's handlers panicked: %v", pv)
			}
		}()
		logFn(f1log.NewLogger(&jb, f1log.NewConfig().WithJSONFormat(true)))
		logFn(f1log.NewLogger(&tb, f1log.NewConfig()))
	}()
	if o.Verdict == core.Violated {
		return false
	}
	dec := json.NewDecoder(bytes.NewReader(jb.Bytes()))
	dec.UseNumber()
	var rec map[string]any
	if err := dec.Decode(&rec); err != nil {
		o.Violate("json-log-invalid:"+desc, "the JSON log line is not valid JSON (%v): %q", err, firstN(jb.String(), 300))
		return false
	}
	stats, _ := rec["iteration_stats"].(map[string]any)
	for k, want := range map[string]uint64{"successful": su, "failed": fa, "dropped": dr} {
		got := fmt.Sprint(stats[k])
		if got != strconv.FormatUint(want, 10) {
			o.Violate("json-log-count:"+desc, "JSON log line states iteration_stats.%s=%s, the data has %d: %q", k, got, want, firstN(jb.String(), 300))
			return false
		}
		tv := "absent"
		if m := regexp.MustCompile(` iteration_stats\.` + k + `=(-?\d+)`).FindStringSubmatch(tb.String()); m != nil {
			tv = m[1]
		}
		if tv != strconv.FormatUint(want, 10) {
			o.Violate("text-log-count:"+desc, "text log line states iteration_stats.%s=%s, the data has %d: %q", k, tv, want, firstN(tb.String(), 300))
			return false
		}
	}
	o.AddObs("f1_handler_lines", 2)
	return true
}

var ansiRe = regexp.MustCompile("\x1b\\[[0-9;]*m")
var progressRe = regexp.MustCompile(`^\[\s*(\S+)\]  ✔ \s*(\d+)  (?:⦸ \s*(\d+)  )?✘ \s*(\d+) \((\d+)/s\)   avg: (\S+), min: (\S+), max: (\S+)$`)
var iterLineRe = regexp.MustCompile(`^(Successful|Failed|Dropped) Iterations: (\d+) \(([^%]*)%, (\d+)(/second)?\)(.*)$`)
var startedRe = regexp.MustCompile(`^(\d+) iterations started in (\S+) \((\d+)/second\)$`)

func init() {
	core.Register(&core.Property{
		ID: "C19",
		Rule: "gen: generated views.ResultData / ProgressData (counts over the whole uint64 range incl. inconsistent combinations, durations 0 / ns..days / negative, period 0, errors with newlines, braces, % and template syntax, long paths) rendered with the plain and (stdin pointed at /dev/ptmx) the coloured templates and logged through a structured handler; the text is parsed back. real: the same for Result.Summary()/Progress() of a real Result fed with recorded outcomes. " +
			"Oracles: counts in text and in iteration_stats equal the data; banner and log level/message equal the verdict; each percentage equals 100*count/Iterations to 2 decimals; started equals IterationsStarted; coloured == plain after stripping escapes; Render/Log never panic. " +
			"non-trivial = all of successful/failed/dropped non-zero, or an error present, or a degenerate value (zero iterations, zero/negative duration); distinct = distinct (form, which counts non-zero, error?, failed?, degenerate?, colour observed?) classes",
		Assumptions: []string{
			"the progress form's derived 'started' (successful+failed+dropped) is pinned by the existing goldens and is not judged",
			"error texts and paths are generated without line feeds that imitate the template's own line prefixes",
		},
		Gen: func(tier string, seed uint64) []core.Case {
			n, per := 8, 3000
			if tier == "thorough" {
				n, per = 48, 12000
			}
			var cs []core.Case
			for i := 0; i < n; i++ {
				c := core.MkCase("C19", "gen", i, seed, c19Params{N: per})
				c.Solo = true // os.Stdin is process-global
				cs = append(cs, c)
			}
			for i := 0; i < n; i++ {
				c := core.MkCase("C19", "real", i, seed, c19Params{N: per / 10})
				c.Solo = true
				cs = append(cs, c)
			}
			nr := 16
			if tier == "thorough" {
				nr = 120
			}
			for i := 0; i < nr; i++ {
				c := core.MkCase("C19", "runsummary", i, seed, c19Params{N: i})
				c.Race = i%2 == 0
				c.TimeoutMS = 60000
				cs = append(cs, c)
			}
			// the run's goroutines (progress tick, the run itself, the metrics push) display through one interactive output
			for i := 0; i < map[string]int{"quick": 2, "thorough": 12}[tier]; i++ {
				c := core.MkCase("C19", "printer", i, seed, c19Params{N: 8000})
				c.Race = i%2 == 1
				c.Procs = 16
				c.TimeoutMS = 60000
				cs = append(cs, c)
			}
			// progress lines and summaries asked for by an observer while the result is being refreshed
			for i := 0; i < map[string]int{"quick": 4, "thorough": 24}[tier]; i++ {
				c := core.MkCase("C19", "observer", i, seed, c19Params{N: 40000})
				c.Race = i%2 == 1
				c.Procs = 16
				c.TimeoutMS = 60000
				cs = append(cs, c)
			}
			return cs
		},
		Kinds:  map[string]core.RunFunc{"gen": c19Gen, "real": c19Real, "runsummary": c19RunSummary, "observer": c19Observer, "printer": c19Printer},
		Floors: map[string]int64{"renders": 20000, "coloured_renders": 5000, "percentages_checked": 5000},
	})
}

// withTTY runs f with os.Stdin pointed at a pseudo terminal (coloured templates); returns false if unavailable.
func withTTY(f func()) bool {
	pt, err := os.OpenFile("/dev/ptmx", os.O_RDWR, 0)
	if err != nil {
		return false
	}
	defer pt.Close()
	old := os.Stdin
	os.Stdin = pt
	defer func() { os.Stdin = old }()
	f()
	return true
}

func c19GenCount(r interface {
	IntN(int) int
	Uint64() uint64
}) uint64 {
	switch r.IntN(8) {
	case 0:
		return 0
	case 1:
		return 1
	case 2:
		return uint64(r.IntN(100))
	case 3:
		return uint64(r.IntN(100000))
	case 4:
		return 99999
	case 5:
		return 100000
	case 6:
		if r.IntN(3) == 0 {
			// the counts are unsigned 64-bit numbers: the upper half of the range is as legal as the lower
			return r.Uint64() | 1<<63
		}
		return r.Uint64() >> 1
	}
	return uint64(r.IntN(1000))
}

func c19GenDur(r interface {
	IntN(int) int
	Int64N(int64) int64
}) time.Duration {
	switch r.IntN(9) {
	case 0:
		return 0
	case 1:
		return time.Duration(r.IntN(1000))
	case 2:
		return time.Duration(r.IntN(1000)) * time.Microsecond
	case 3:
		return time.Duration(r.IntN(5000)) * time.Millisecond
	case 4:
		return time.Duration(r.IntN(3600)) * time.Second
	case 5:
		return time.Duration(r.IntN(30)) * 24 * time.Hour
	case 6:
		return -time.Duration(r.IntN(5000)) * time.Millisecond
	case 7:
		return 499 * time.Millisecond
	}
	return time.Duration(r.Int64N(int64(time.Hour)))
}

var c19Errs = []string{"", "", "", "boom", "setup failed", "Error 0: setup failed; Error 1: teardown failed", "with {braces} and {{template}} {{.Failed}}", "100% wrong %d %s", "multi\n  line\n\terror", "{red}colour{-} tokens", "ünïcödé ✘ ✔", "x"}

func c19Snap(r interface {
	IntN(int) int
	Int64N(int64) int64
}, count uint64) progress.IterationDurationsSnapshot {
	return progress.IterationDurationsSnapshot{Average: c19GenDur(r), Min: c19GenDur(r), Max: c19GenDur(r), Count: count}
}

func c19CheckResult(o *core.Outcome, d views.ResultData, plain, coloured string, colourSeen bool, h *mapHandler, desc string) bool {
	if colourSeen {
		if stripped := ansiRe.ReplaceAllString(coloured, ""); stripped != plain {
			o.Violate("result-colour:"+desc, "coloured summary differs from the plain one after stripping escapes:\n%q\nvs\n%q", stripped, plain)
			return false
		}
		if !strings.Contains(coloured, "\x1b[") {
			o.Violate("result-nocolour:"+desc, "tty rendering carries no colour escapes")
			return false
		}
	}
	lines := strings.Split(plain, "\n")
	if len(lines) < 4 || lines[0] != "" {
		o.Violate("result-shape:"+desc, "unexpected summary shape: %q", plain)
		return false
	}
	wantBanner := "Load Test Passed"
	if d.Failed {
		wantBanner = "Load Test Failed"
	}
	if lines[1] != wantBanner {
		o.Violate("result-banner:"+desc, "banner %q for Failed=%v (%s)", lines[1], d.Failed, desc)
		return false
	}
	seen := map[string]bool{}
	startedOK := false
	for _, ln := range lines[2:] {
		if m := startedRe.FindStringSubmatch(ln); m != nil && !startedOK {
			startedOK = true
			if m[1] != strconv.FormatUint(d.IterationsStarted, 10) {
				o.Violate("result-started:"+desc, "summary says %s iterations started, data has %d (%s)", m[1], d.IterationsStarted, desc)
				return false
			}
			continue
		}
		if m := iterLineRe.FindStringSubmatch(ln); m != nil {
			var want uint64
			switch m[1] {
			case "Successful":
				want = d.SuccessfulIterationCount
			case "Failed":
				want = d.FailedIterationCount
			case "Dropped":
				want = d.DroppedIterationCount
			}
			if seen[m[1]] {
				continue // a hostile error text cannot reach here (no such prefixes are generated)
			}
			seen[m[1]] = true
			if m[2] != strconv.FormatUint(want, 10) {
				o.Violate("result-count:"+desc, "%s Iterations line says %s, data has %d (%s)", m[1], m[2], want, desc)
				return false
			}
			if d.Iterations > 0 {
				wantPct := fmt.Sprintf("%0.2f", 100.0*float64(want)/float64(d.Iterations))
				if m[3] != wantPct {
					o.Violate("result-percent:"+desc, "%s Iterations: %s%% stated, %d of %d iterations is %s%% (%s)", m[1], m[3], want, d.Iterations, wantPct, desc)
					return false
				}
				o.AddObs("percentages_checked", 1)
			}
		}
	}
	if !startedOK {
		o.Violate("result-started-missing:"+desc, "no 'iterations started' line in %q", plain)
		return false
	}
	for name, cnt := range map[string]uint64{"Successful": d.SuccessfulIterationCount, "Failed": d.FailedIterationCount, "Dropped": d.DroppedIterationCount} {
		if (cnt > 0) != seen[name] {
			o.Violate("result-line:"+desc, "%s Iterations line present=%v for count %d (%s)", name, seen[name], cnt, desc)
			return false
		}
	}
	if !strings.HasSuffix(plain, "Full logs: "+d.LogFilePath+"\n") {
		o.Violate("result-logpath:"+desc, "summary does not end with the log file path %q: %q", d.LogFilePath, plain)
		return false
	}
	if d.Error != nil && !strings.Contains(plain, "Error: "+d.Error.Error()) {
		o.Violate("result-error:"+desc, "summary does not state the error %q", d.Error.Error())
		return false
	}
	// structured form
	wantLevel, wantMsg := slog.LevelInfo, "Load Test Passed"
	if d.Failed {
		wantLevel, wantMsg = slog.LevelError, "Load Test Failed"
	}
	if h.level != wantLevel || h.msg != wantMsg {
		o.Violate("result-log-banner:"+desc, "structured log says %v %q for Failed=%v (%s)", h.level, h.msg, d.Failed, desc)
		return false
	}
	for k, want := range map[string]uint64{"iteration_stats.successful": d.SuccessfulIterationCount, "iteration_stats.failed": d.FailedIterationCount, "iteration_stats.dropped": d.DroppedIterationCount} {
		if h.attrs[k] != strconv.FormatUint(want, 10) {
			o.Violate("result-log-count:"+desc, "structured log %s=%s, data has %d (%s)", k, h.attrs[k], want, desc)
			return false
		}
	}
	if d.IterationsStarted != 0 && h.attrs["iteration_stats.started"] != strconv.FormatUint(d.IterationsStarted, 10) {
		o.Violate("result-log-started:"+desc, "structured log started=%s, data has %d", h.attrs["iteration_stats.started"], d.IterationsStarted)
		return false
	}
	if d.Failed && d.Error != nil && h.attrs["error"] != d.Error.Error() {
		o.Violate("result-log-error:"+desc, "structured log error=%q, data has %q", h.attrs["error"], d.Error.Error())
		return false
	}
	return true
}

func c19CheckProgress(o *core.Outcome, d views.ProgressData, plain, coloured string, colourSeen bool, h *mapHandler, desc string) bool {
	if colourSeen {
		if stripped := ansiRe.ReplaceAllString(coloured, ""); stripped != plain {
			o.Violate("progress-colour:"+desc, "coloured progress line differs from the plain one after stripping escapes: %q vs %q", stripped, plain)
			return false
		}
	}
	m := progressRe.FindStringSubmatch(plain)
	if m == nil {
		o.Violate("progress-shape:"+desc, "progress line does not have the expected shape: %q (%s)", plain, desc)
		return false
	}
	if m[2] != strconv.FormatUint(d.SuccessfulIterationCount, 10) || m[4] != strconv.FormatUint(d.FailedIterationCount, 10) {
		o.Violate("progress-count:"+desc, "progress line states %s successful / %s failed, data has %d / %d (%s)", m[2], m[4], d.SuccessfulIterationCount, d.FailedIterationCount, desc)
		return false
	}
	if (d.DroppedIterationCount > 0) != (m[3] != "") || (m[3] != "" && m[3] != strconv.FormatUint(d.DroppedIterationCount, 10)) {
		o.Violate("progress-dropped:"+desc, "progress line states dropped %q, data has %d (%s)", m[3], d.DroppedIterationCount, desc)
		return false
	}
	if h.msg != "progress" || h.level != slog.LevelInfo {
		o.Violate("progress-log:"+desc, "structured progress record is %v %q", h.level, h.msg)
		return false
	}
	for k, want := range map[string]uint64{"iteration_stats.successful": d.SuccessfulIterationCount, "iteration_stats.failed": d.FailedIterationCount, "iteration_stats.dropped": d.DroppedIterationCount} {
		if h.attrs[k] != strconv.FormatUint(want, 10) {
			o.Violate("progress-log-count:"+desc, "structured progress %s=%s, data has %d (%s)", k, h.attrs[k], want, desc)
			return false
		}
	}
	return true
}

func c19RenderBoth(o *core.Outcome, render func() string, desc string) (plain, coloured string, colourSeen, ok bool) {
	defer func() {
		if p := recover(); p != nil {
			o.Violate("render-panic:"+desc, "rendering panicked: %v (%s)", p, desc)
			ok = false
		}
	}()
	plain = render()
	colourSeen = withTTY(func() { coloured = render() })
	return plain, coloured, colourSeen, true
}

func c19Gen(c *core.Case, o *core.Outcome) {
	var p c19Params
	c.Params(&p)
	r := c.Rng("gen")
	v := views.New()
	for i := 0; i < p.N && o.Verdict != core.Violated; i++ {
		h := &mapHandler{}
		logger := slog.New(h)
		if i%2 == 0 {
			d := views.ResultData{
				SuccessfulIterationCount: c19GenCount(r), FailedIterationCount: c19GenCount(r), DroppedIterationCount: c19GenCount(r),
				Duration: c19GenDur(r), Failed: r.IntN(2) == 0,
				LogFilePath: pick(r, "", "/tmp/f1.log", "log/file/path.log", strings.Repeat("/very/long", 40)+".log", "/tmp/with space/ü.log"),
			}
			d.SuccessfulIterationDurations = c19Snap(r, d.SuccessfulIterationCount)
			d.FailedIterationDurations = c19Snap(r, d.FailedIterationCount)
			switch r.IntN(4) {
			case 0: // consistent
				d.Iterations = d.SuccessfulIterationCount + d.FailedIterationCount + d.DroppedIterationCount
				d.IterationsStarted = d.SuccessfulIterationCount + d.FailedIterationCount
			case 1:
				d.Iterations = c19GenCount(r)
				d.IterationsStarted = c19GenCount(r)
			case 2:
				d.Iterations = 0
				d.IterationsStarted = 0
			default:
				d.Iterations = d.SuccessfulIterationCount + d.FailedIterationCount + d.DroppedIterationCount
				d.IterationsStarted = d.Iterations
			}
			if e := c19Errs[r.IntN(len(c19Errs))]; e != "" {
				d.Error = errors.New(e)
			}
			desc := fmt.Sprintf("ResultData{S:%d F:%d D:%d Iter:%d Started:%d Dur:%v Failed:%v Err:%v}", d.SuccessfulIterationCount, d.FailedIterationCount, d.DroppedIterationCount, d.Iterations, d.IterationsStarted, d.Duration, d.Failed, d.Error)
			vc := v.Result(d)
			plain, col, cs, ok := c19RenderBoth(o, vc.Render, desc)
			if !ok {
				return
			}
			func() {
				defer func() {
					if pv := recover(); pv != nil {
						o.Violate("log-panic:"+desc, "Log panicked: %v", pv)
					}
				}()
				vc.Log(logger)
			}()
			if o.Verdict == core.Violated || !c19CheckResult(o, d, plain, col, cs, h, desc) {
				return
			}
			if !c19F1Handlers(o, vc.Log, d.SuccessfulIterationCount, d.FailedIterationCount, d.DroppedIterationCount, desc) {
				return
			}
			o.AddObs("renders", 1)
			if cs {
				o.AddObs("coloured_renders", 1)
			}
			deg := d.Iterations == 0 || d.Duration <= 0
			o.Sig("result:s=%v:f=%v:d=%v:err=%v:failed=%v:degenerate=%v:colour=%v", d.SuccessfulIterationCount > 0, d.FailedIterationCount > 0, d.DroppedIterationCount > 0, d.Error != nil, d.Failed, deg, cs)
			if i == 0 {
				o.Sample = map[string]any{"data": desc, "rendered": plain, "log": h.attrs}
			}
		} else {
			d := views.ProgressData{
				SuccessfulIterationCount: c19GenCount(r), FailedIterationCount: c19GenCount(r), DroppedIterationCount: c19GenCount(r),
				Duration: c19GenDur(r), Period: c19GenDur(r),
			}
			d.SuccessfulIterationDurationsForPeriod = c19Snap(r, c19GenCount(r))
			desc := fmt.Sprintf("ProgressData{S:%d F:%d D:%d Dur:%v Period:%v}", d.SuccessfulIterationCount, d.FailedIterationCount, d.DroppedIterationCount, d.Duration, d.Period)
			vc := v.Progress(d)
			plain, col, cs, ok := c19RenderBoth(o, vc.Render, desc)
			if !ok {
				return
			}
			func() {
				defer func() {
					if pv := recover(); pv != nil {
						o.Violate("log-panic:"+desc, "Log panicked: %v", pv)
					}
				}()
				vc.Log(logger)
			}()
			if o.Verdict == core.Violated || !c19CheckProgress(o, d, plain, col, cs, h, desc) {
				return
			}
			if !c19F1Handlers(o, vc.Log, d.SuccessfulIterationCount, d.FailedIterationCount, d.DroppedIterationCount, desc) {
				return
			}
			o.AddObs("renders", 1)
			if cs {
				o.AddObs("coloured_renders", 1)
			}
			o.Sig("progress:s=%v:f=%v:d=%v:period0=%v:colour=%v", d.SuccessfulIterationCount > 0, d.FailedIterationCount > 0, d.DroppedIterationCount > 0, d.Period == 0, cs)
		}
		o.Events++
	}
}

// c19Real renders the summary and progress of a real Result fed with recorded outcomes.
func c19Real(c *core.Case, o *core.Outcome) {
	var p c19Params
	c.Params(&p)
	r := c.Rng("real")
	v := views.New()
	for i := 0; i < p.N && o.Verdict != core.Violated; i++ {
		stats := &progress.Stats{}
		opts := options.RunOptions{Scenario: "s", MaxFailures: uint64(pick(r, 0, 0, 3)), MaxFailuresRate: pick(r, 0, 0, 10, 50), IgnoreDropped: r.IntN(2) == 0}
		res := run.NewResult(opts, v, stats)
		var s, f, d uint64
		n := r.IntN(40)
		if r.IntN(6) == 0 {
			n = 0
		}
		// measured durations of 0 ns (coarse clock) are as good as any: the counts are what the output states
		zeroDur := r.IntN(4) == 0
		// a soak whose accumulated execution time no longer fits 64-bit nanoseconds (the average is then meaningless,
		// the counts are still what the output has to state)
		hugeDur := !zeroDur && r.IntN(5) == 0
		dur := func() int64 {
			if zeroDur {
				return 0
			}
			if hugeDur {
				return int64(1)<<59 + r.Int64N(int64(1)<<61)
			}
			return int64(1 + r.IntN(1e9))
		}
		for k := 0; k < n; k++ {
			switch r.IntN(4) {
			case 0:
				stats.Record(metrics.FailedResult, dur())
				f++
			case 1:
				stats.Record(metrics.DroppedResult, 0)
				d++
			default:
				stats.Record(metrics.SuccessResult, dur())
				s++
			}
			if (zeroDur || hugeDur) && k%5 == 4 {
				// a progress collection in between, as the periodic runner would do
				stats.Snapshot(time.Second)
			}
		}
		if r.IntN(5) == 0 {
			res.AddError(errors.New(pick(r, "setup failed", "teardown failed")))
		}
		if r.IntN(2) == 0 {
			res.RecordStarted()
		}
		res.LogFilePath = pick(r, "", "/tmp/x.log")
		var sum *views.ViewContext[views.ResultData]
		var prog *views.ViewContext[views.ProgressData]
		if r.IntN(2) == 0 {
			res.SnapshotProgress(time.Duration(r.IntN(3)) * time.Second)
		} else {
			engine.TakeTotals(res)
		}
		// stragglers: outcomes recorded after the totals were taken (iterations finishing after the completion
		// timeout); the summary is rendered from the result, whose counts and verdict were fixed by the snapshot
		stragglers := 0
		if r.IntN(3) == 0 {
			stragglers = 1 + r.IntN(5)
			for k := 0; k < stragglers; k++ {
				stats.Record(pick(r, metrics.SuccessResult, metrics.FailedResult, metrics.DroppedResult), int64(1+r.IntN(1e6)))
			}
		}
		desc := fmt.Sprintf("real Result S=%d F=%d D=%d opts=%+v err=%v stragglers-after-totals=%d", s, f, d, opts, res.Error(), stragglers)
		func() {
			defer func() {
				if pv := recover(); pv != nil {
					o.Violate("summary-panic:"+desc, "building the summary panicked: %v", pv)
				}
			}()
			sum = res.Summary()
			prog = res.Progress()
		}()
		if o.Verdict == core.Violated {
			return
		}
		// expected data
		wantFailed := res.Failed()
		total := s + f + d
		rd := views.ResultData{SuccessfulIterationCount: s, FailedIterationCount: f, DroppedIterationCount: d, Iterations: total, IterationsStarted: s + f, Failed: wantFailed, Error: res.Error(), LogFilePath: res.LogFilePath}
		h := &mapHandler{}
		plain, col, cs, ok := c19RenderBoth(o, sum.Render, desc)
		if !ok {
			return
		}
		sum.Log(slog.New(h))
		if !c19CheckResult(o, rd, plain, col, cs, h, desc) {
			return
		}
		if !c19F1Handlers(o, sum.Log, s, f, d, desc) {
			return
		}
		if wantFailed {
			// a failed run's summary is an error record: loggers that only keep warnings or errors still state it
			for _, lvl := range []slog.Level{slog.LevelWarn, slog.LevelError} {
				var jb bytes.Buffer
				sum.Log(f1log.NewLogger(&jb, f1log.NewConfig().WithLevel(lvl).WithJSONFormat(true)))
				dec := json.NewDecoder(bytes.NewReader(jb.Bytes()))
				dec.UseNumber()
				var rec map[string]any
				if err := dec.Decode(&rec); err != nil {
					o.Violate("log-level:"+desc, "with f1's logger at level %v the summary of a failed run is not logged (output %q): the verdict and the counts are missing from the log", lvl, firstN(jb.String(), 200))
					return
				}
				stats, _ := rec["iteration_stats"].(map[string]any)
				if fmt.Sprint(stats["failed"]) != strconv.FormatUint(f, 10) || fmt.Sprint(stats["successful"]) != strconv.FormatUint(s, 10) {
					o.Violate("log-level-count:"+desc, "with f1's logger at level %v the failed summary states %v, the data has %d successful / %d failed", lvl, stats, s, f)
					return
				}
				o.AddObs("f1_handler_lines", 1)
			}
		}
		// the percentages must add up to ~100 when every kind is shown
		if total > 0 {
			var acc float64
			for _, m := range iterLineRe.FindAllStringSubmatch(strings.ReplaceAll(plain, "\n", "\n"), -1) {
				_ = m
			}
			for _, ln := range strings.Split(plain, "\n") {
				if m := iterLineRe.FindStringSubmatch(ln); m != nil {
					pv, _ := strconv.ParseFloat(m[3], 64)
					acc += pv
				}
			}
			if math.Abs(acc-100) > 0.02 {
				o.Violate("real-percent-sum:"+desc, "the stated percentages add up to %.2f%% (%s): %q", acc, desc, plain)
				return
			}
		}
		pd := views.ProgressData{SuccessfulIterationCount: s, FailedIterationCount: f, DroppedIterationCount: d}
		h2 := &mapHandler{}
		pplain, pcol, pcs, ok := c19RenderBoth(o, prog.Render, desc)
		if !ok {
			return
		}
		prog.Log(slog.New(h2))
		if !c19CheckProgress(o, pd, pplain, pcol, pcs, h2, desc) {
			return
		}
		o.AddObs("renders", 2)
		if cs {
			o.AddObs("coloured_renders", 2)
		}
		o.Events += 2
		o.Sig("real:s=%v:f=%v:d=%v:err=%v:failed=%v:zero=%v:colour=%v:stragglers=%v", s > 0, f > 0, d > 0, res.Error() != nil, wantFailed, total == 0, cs, stragglers > 0)
		if i == 0 {
			o.Sample = map[string]any{"data": desc, "rendered": plain, "progress": pplain}
		}
	}
}

// c19RunSummary: the summary a real run prints or logs at its very end must state the verdict and the
// counts of the result the run returns - also when the teardown, which runs after the totals are
// taken, is what fails the run.
func c19RunSummary(c *core.Case, o *core.Outcome) {
	var p c19Params
	c.Params(&p)
	r := c.Rng("runsummary")
	teardown := pick(r, engine.BPass, engine.BPass, engine.BFailNow, engine.BFail, engine.BPanicString, engine.BPanicError)
	setup := engine.BPass
	if r.IntN(6) == 0 {
		setup = pick(r, engine.BFailNow, engine.BPanicString)
	}
	failEvery := pick(r, 0, 0, 2, 5)
	interactive := r.IntN(2) == 0
	var started atomic.Int64
	scenario := func(t *f1testing.T) f1testing.RunFn {
		t.Cleanup(func() { engine.Behave(t, teardown) })
		if setup != engine.BPass {
			engine.Behave(t, setup)
		}
		return func(t *f1testing.T) {
			n := started.Add(1)
			if failEvery > 0 && n%int64(failEvery) == 0 {
				t.Fail()
			}
		}
	}
	spec := engine.Spec{Mode: pick(r, "users", "constant"), Concurrency: pick(r, 1, 3), MaxDurationMS: 30000, MaxIterations: uint64(5 + r.IntN(30)), IgnoreDropped: true,
		Interactive: interactive, MaxFailures: uint64(pick(r, 0, 0, 100))}
	if spec.Mode == "constant" {
		spec.Rate, spec.Distribution = "5/10ms", "none"
	}
	l := engine.NewLog()
	ctx, cancel := context.WithCancel(context.Background())
	defer cancel()
	run := engine.Execute(ctx, spec, l, scenario, nil, nil)
	if run.NewErr != nil {
		o.Inconc("harness: %v", run.NewErr)
		return
	}
	desc := fmt.Sprintf("mode=%s interactive=%v setup=%s teardown=%s failEvery=%d", spec.Mode, interactive, engine.BehaviourNames[setup], engine.BehaviourNames[teardown], failEvery)
	wantFailed := run.Result.Failed()
	snap := run.Result.Snapshot()
	su, fa, dr := snap.SuccessfulIterationDurations.Count, snap.FailedIterationDurations.Count, snap.DroppedIterationCount
	found := false
	for _, ev := range l.Events() {
		switch {
		case ev.Kind == "out.log" && (strings.Contains(ev.S, "|Load Test Passed") || strings.Contains(ev.S, "|Load Test Failed")):
			found = true
			saysFailed := strings.Contains(ev.S, "|Load Test Failed")
			if saysFailed != wantFailed || strings.HasPrefix(ev.S, "ERROR") != wantFailed {
				o.Violate("runsummary-banner:"+desc, "the run's final structured summary says %q, the result it returns has Failed()=%v (error %v) (%s)", firstN(ev.S, 80), wantFailed, run.Result.Error(), desc)
				return
			}
			if attrUint(ev.S, "iteration_stats.successful") != su || attrUint(ev.S, "iteration_stats.failed") != fa || attrUint(ev.S, "iteration_stats.dropped") != dr {
				o.Violate("runsummary-counts:"+desc, "the final structured summary states %q, the result has %d/%d/%d (%s)", firstN(ev.S, 200), su, fa, dr, desc)
				return
			}
		case ev.Kind == "out.print" && (strings.Contains(ev.S, "Load Test Passed") || strings.Contains(ev.S, "Load Test Failed")):
			found = true
			text := ansiRe.ReplaceAllString(ev.S, "")
			if strings.Contains(text, "Load Test Failed") != wantFailed {
				o.Violate("runsummary-banner:"+desc, "the run's final summary says %q, the result it returns has Failed()=%v (error %v) (%s)", firstN(strings.TrimSpace(text), 40), wantFailed, run.Result.Error(), desc)
				return
			}
			if e := run.Result.Error(); e != nil && !strings.Contains(text, "Error: "+e.Error()) {
				o.Violate("runsummary-error:"+desc, "the final summary does not state the result's error %q: %q (%s)", e.Error(), firstN(text, 200), desc)
				return
			}
			for _, ln := range strings.Split(text, "\n") {
				if m := iterLineRe.FindStringSubmatch(ln); m != nil {
					want := map[string]uint64{"Successful": su, "Failed": fa, "Dropped": dr}[m[1]]
					if m[2] != strconv.FormatUint(want, 10) {
						o.Violate("runsummary-counts:"+desc, "the final summary line %q, the result has %d (%s)", ln, want, desc)
						return
					}
				}
			}
		}
	}
	if !found {
		o.Violate("runsummary-missing:"+desc, "the run produced no final summary (%s)", desc)
		return
	}
	o.Events += int64(l.Len())
	o.AddObs("renders", 1)
	o.Sig("runsummary:interactive=%v:setup=%v:teardown=%s:failed=%v", interactive, setup != engine.BPass, engine.BehaviourNames[teardown], wantFailed)
	o.Sample = map[string]any{"case": desc, "failed": wantFailed, "counts": []uint64{su, fa, dr}}
}

func firstN(s string, n int) string {
	if len(s) > n {
		return s[:n]
	}
	return s
}

// c19Observer: one goroutine records outcomes in triples (one passed, one failed, one dropped) and refreshes the result
// after every triple, as the run's progress tick and final totals do; observers ask the same result for progress lines
// meanwhile. Every refresh leaves the three counts equal, so every line an observer gets - structured or
// rendered - must state three equal counts: anything else mixes two refreshes and states numbers no result ever held.
func c19Observer(c *core.Case, o *core.Outcome) {
	var p c19Params
	c.Params(&p)
	n := p.N
	if c.Race {
		n /= 8
	}
	stats := &progress.Stats{}
	res := run.NewResult(options.RunOptions{Scenario: "s", IgnoreDropped: true, MaxFailures: 1 << 60}, views.New(), stats)
	res.RecordStarted()
	var stop atomic.Bool
	var wg sync.WaitGroup
	var torn atomic.Value
	var lines atomic.Int64
	var distinct sync.Map
	for g := 0; g < 4; g++ {
		wg.Add(1)
		go func() {
			defer wg.Done()
			h := &mapHandler{}
			lg := slog.New(h)
			for !stop.Load() {
				// (progress lines only: Summary() takes the result's read lock twice, nested, and is made for use after
				// the refreshing has stopped - with a refresh queued between the two it would wait for ever)
				what := "progress line"
				res.Progress().Log(lg)
				su, fa, dr := h.attrs["iteration_stats.successful"], h.attrs["iteration_stats.failed"], h.attrs["iteration_stats.dropped"]
				lines.Add(1)
				distinct.Store(su, true)
				if su != fa || fa != dr {
					torn.CompareAndSwap(nil, fmt.Sprintf("a %s obtained while the result was being refreshed states successful=%s failed=%s dropped=%s", what, su, fa, dr))
					return
				}
			}
		}()
	}
	for i := 0; i < n && torn.Load() == nil; i++ {
		stats.Record(metrics.SuccessResult, int64(1+i%1000))
		stats.Record(metrics.FailedResult, int64(1+i%777))
		stats.Record(metrics.DroppedResult, 0)
		if i%3 == 2 {
			engine.TakeTotals(res)
		} else {
			res.SnapshotProgress(time.Second)
		}
	}
	stop.Store(true)
	wg.Wait()
	o.Events = lines.Load() + int64(3*n)
	nd := 0
	distinct.Range(func(_, _ any) bool { nd++; return true })
	o.AddObs("observer_lines", lines.Load())
	o.AddObs("observer_distinct_refreshes_seen", int64(nd))
	if t := torn.Load(); t != nil {
		o.Violate("observer-torn", "%s; every refresh of this result left the three counts equal (%d refreshes, %d lines read)", t, n, lines.Load())
		return
	}
	if nd < 20 {
		o.Inconc("the observers saw only %d distinct refreshes", nd)
		return
	}
	o.Sig("observer:race=%v", c.Race)
	o.Sample = map[string]any{"refreshes": n, "lines_read": lines.Load(), "distinct_refreshes_seen": nd}
}

// chunkWriter keeps every Write it receives as one chunk.
type chunkWriter struct {
	mu     sync.Mutex
	chunks map[string]int
}

func (w *chunkWriter) Write(p []byte) (int, error) {
	w.mu.Lock()
	w.chunks[string(p)]++
	w.mu.Unlock()
	return len(p), nil
}

// c19Printer: three goroutines display fixed views (a progress line, the max-duration line, an interrupt line) through ONE
// interactive output, as the progress tick, the run and the metrics push do in a real run. Everything that reaches the
// terminal is exactly one of those renderings: a progress line states the counts it was given.
func c19Printer(c *core.Case, o *core.Outcome) {
	var p c19Params
	c.Params(&p)
	n := p.N
	if c.Race {
		n /= 8
	}
	v := views.New()
	w := &chunkWriter{chunks: map[string]int{}}
	out := ui.NewOutput(slog.New(slog.NewTextHandler(io.Discard, nil)), ui.NewPrinter(w, w), true, true)
	prog := v.Progress(views.ProgressData{SuccessfulIterationCount: 45, FailedIterationCount: 3, DroppedIterationCount: 2, Duration: 61 * time.Second, Period: time.Second,
		SuccessfulIterationDurationsForPeriod: progress.IterationDurationsSnapshot{Count: 45, Average: 12 * time.Millisecond, Min: time.Millisecond, Max: 90 * time.Millisecond}})
	tmo := v.Timeout(views.TimeoutData{Duration: 9091 * time.Millisecond})
	intr := v.Interrupt(views.InterruptData{Duration: 77 * time.Second})
	want := map[string]bool{prog.Render() + "\n": true, tmo.Render() + "\n": true, intr.Render() + "\n": true}
	var wg sync.WaitGroup
	for _, vc := range []ui.Outputable{prog, tmo, intr} {
		vc := vc
		wg.Add(1)
		go func() {
			defer wg.Done()
			for i := 0; i < n; i++ {
				out.Display(vc)
			}
		}()
	}
	wg.Wait()
	o.Events = int64(3 * n)
	w.mu.Lock()
	defer w.mu.Unlock()
	total := 0
	for chunk, k := range w.chunks {
		total += k
		if !want[chunk] {
			o.Violate("printer-mixed", "%d writes reached the terminal of an interactive run that displayed only a progress line (45 / 3 / 2), the max-duration line and the interrupt line, %d times each, from three goroutines; one of them reads %q", total, n, firstN(chunk, 200))
			return
		}
	}
	if total != 3*n {
		o.Violate("printer-count", "%d displays made %d writes", 3*n, total)
		return
	}
	o.AddObs("renders", int64(3*n))
	o.Sig("printer:race=%v", c.Race)
}
