package props

import (
	"context"
	"fmt"
	"runtime"
	"strings"
	"sync"
	"sync/atomic"
	"time"

	"github.com/anishathalye/porcupine"

	"github.com/form3tech-oss/f1/v2/internal/workers"
	f1testing "github.com/form3tech-oss/f1/v2/pkg/f1/testing"
	"github.com/form3tech-oss/f1/v2/verifharness/core"
	"github.com/form3tech-oss/f1/v2/verifharness/engine"
)

// C02 — requested work is conserved: every request is started once or dropped once.

type c02Step struct {
	Op string `json:"op"` // tick release cancel
	N  int    `json:"n"`
}

type c02ScriptParams struct {
	W     int       `json:"w"`
	Limit uint64    `json:"limit"`
	Steps []c02Step `json:"steps"`
}

type c02StressParams struct {
	W       int    `json:"w"`
	Limit   uint64 `json:"limit"`
	Ticks   int    `json:"ticks"`
	Perturb bool   `json:"perturb"`
	BigTick bool   `json:"big_tick"`
}

type c02HookParams struct {
	Schedule string `json:"schedule"`
}

type c02RunParams struct {
	Values []int  `json:"values"`
	StopAt int    `json:"stop_at"`
	Conc   int    `json:"conc"`
	Body   string `json:"body"`
	IvUS   int    `json:"iv_us"`
	DurMS  int    `json:"dur_ms,omitempty"` // kind deadline: the max-duration that ends the run
	// SetupMark: the second body reports an error through the handle captured in setup (the scenario is then a failed
	// one; its requests are still requests)
	SetupMark bool `json:"setup_mark,omitempty"`
}

func init() {
	core.Register(&core.Property{
		ID: "C02",
		Rule: "script: a real TriggerPool over a real ActiveScenario with gated bodies is driven through generated tick(n)/release(k)/cancel scripts (with and without a limit); a sequential reference model (pending, busy, idle, ids, limit flag) predicts started and dropped after every step, each step is taken at quiescence. " +
			"hook: one deterministic schedule per racy order at yield hooks (tick between the limit path's discard and cancel; Trigger parked after its context check across cancel+stop; worker parked before take while a tick supersedes / stop drains / another worker hits the limit; stop path parked before draining). " +
			"stress: a ticker goroutine with random tick sizes against 1..64 workers with perturbing hooks, R_committed <= S+D <= R_all. counter: porcupine on the real pending counter. run: whole runs stopped from inside rate evaluation m, sum of applied values == S+D. " +
			"non-trivial = a step superseded, stopped or limited pending work (script), the schedule formed (hook), drops occurred (stress/run); distinct = distinct (kind, workers, limit?, step kinds present | schedule | tick class) classes",
		Assumptions: []string{
			"a tick's requests are committed if its Trigger call returned before cancellation was invoked; requests of a tick concurrent with cancellation may be discarded but never counted twice",
			"with a limit the moment a worker is refused an id is not observable from outside, so 'silent after the limit' is decided by the scripted cases, where every step is taken at quiescence",
		},
		Gen: func(tier string, seed uint64) []core.Case {
			r := core.Rng(seed, "C02", tier)
			var cs []core.Case
			ns := 200
			if tier == "thorough" {
				ns = 1500
			}
			for i := 0; i < ns; i++ {
				w := pick(r, 1, 1, 2, 3, 5, 8)
				p := c02ScriptParams{W: w}
				if r.IntN(5) < 2 {
					p.Limit = uint64(1 + r.IntN(3*w+4))
				}
				nsteps := 4 + r.IntN(9)
				cancelled := false
				for k := 0; k < nsteps; k++ {
					switch x := r.IntN(10); {
					case x < 5:
						p.Steps = append(p.Steps, c02Step{"tick", pick(r, 0, 1, w-1, w, w+1, 3*w, 50, 2)})
					case x < 9:
						p.Steps = append(p.Steps, c02Step{"release", pick(r, 1, 1, 2, w, 100)})
					default:
						if !cancelled {
							p.Steps = append(p.Steps, c02Step{"cancel", 0})
							cancelled = true
						}
					}
				}
				cse := core.MkCase("C02", "script", i, seed, p)
				cse.Race = i%3 == 0
				cse.Procs = pick(r, 1, 2, 4, 16)
				cse.TimeoutMS = 60000
				cs = append(cs, cse)
			}
			for i, s := range []string{"limit-tick", "trigger-after-ctx-check", "take-superseded", "take-stop", "take-limit", "stop-before-drain", "tick-through-limit-shutdown"} {
				for rep := 0; rep < 2; rep++ {
					cse := core.MkCase("C02", "hook", i*2+rep, seed, c02HookParams{Schedule: s})
					cse.Race = rep == 0
					cse.Solo = true
					cse.TimeoutMS = 60000
					cs = append(cs, cse)
				}
			}
			nst := 40
			if tier == "thorough" {
				nst = 400
			}
			for i := 0; i < nst; i++ {
				p := c02StressParams{W: pick(r, 1, 2, 4, 16, 64), Ticks: 150 + r.IntN(400), Perturb: i%2 == 0, BigTick: i%7 == 3}
				if i%4 == 1 {
					p.Limit = uint64(50 + r.IntN(5000))
				}
				cse := core.MkCase("C02", "stress", i, seed, p)
				cse.Race = i%2 == 1
				cse.Solo = p.Perturb // the hook handler is process-global
				cse.Procs = pick(r, 2, 4, 16)
				cse.TimeoutMS = 90000
				cs = append(cs, cse)
			}
			nlr := 8
			if tier == "thorough" {
				nlr = 48
			}
			for i := 0; i < nlr; i++ {
				cse := core.MkCase("C02", "limitrace", i, seed, map[string]int{"trials": 40000, "w": pick(r, 1, 2, 4)})
				cse.Race = i%4 == 3
				cse.Procs = pick(r, 2, 4, 16)
				cse.TimeoutMS = 120000
				cs = append(cs, cse)
			}
			nfc := 4
			if tier == "thorough" {
				nfc = 24
			}
			for i := 0; i < nfc; i++ {
				cse := core.MkCase("C02", "filecancel", i, seed, map[string]int{"tick": pick(r, 60000, 150000), "cancel_ms": 60 + r.IntN(120), "by_duration": i % 2})
				cse.Race = i%2 == 0
				cse.Procs = pick(r, 2, 16)
				cse.TimeoutMS = 120000
				cs = append(cs, cse)
			}
			// the tick path and the stop path report drops at the same time
			ndd := 2
			if tier == "thorough" {
				ndd = 8
			}
			for i := 0; i < ndd; i++ {
				cse := core.MkCase("C02", "dualdrop", i, seed, map[string]int{"tick": pick(r, 600000, 1500000), "metrics": i % 2})
				cse.Race = false
				cse.Procs = pick(r, 4, 16)
				cse.TimeoutMS = 120000
				cs = append(cs, cse)
			}
			// extreme but legal numbers: limits in the upper half of the uint64 range, ticks beyond 32 bits
			for i, ex := range []map[string]uint64{
				{"limit": 1<<63 + 1000, "tick": 3}, {"limit": ^uint64(0), "tick": 3}, {"limit": 1 << 63, "tick": 9},
				{"limit": 10, "tick": 1<<32 + 3}, {"limit": 10, "tick": 1 << 32}, {"limit": 10, "tick": 1 << 31}, {"limit": 7, "tick": 3 << 40},
			} {
				cse := core.MkCase("C02", "extremes", i, seed, ex)
				cse.Race = i%2 == 0
				cse.TimeoutMS = 60000
				cs = append(cs, cse)
			}
			// config files with several rate-driven stages whose limit is reached in the first one
			nfl := 6
			if tier == "thorough" {
				nfl = 40
			}
			for i := 0; i < nfl; i++ {
				cc := pick(r, 1, 2, 4, 8)
				cse := core.MkCase("C02", "filelimit", i, seed, map[string]int{"c": cc, "n": cc * (2 + r.IntN(5)), "stages": 2 + r.IntN(3), "stage_ms": 200 + r.IntN(200)})
				cse.Race = i%2 == 0
				cse.Procs = pick(r, 2, 16)
				cse.TimeoutMS = 120000
				cs = append(cs, cse)
			}
			nh := 6
			if tier == "thorough" {
				nh = 36
			}
			for i := 0; i < nh; i++ {
				cse := core.MkCase("C02", "hammer", i, seed, map[string]int{"ticks": 60000, "w": pick(r, 16, 32, 64)})
				cse.Race = i%3 == 2
				cse.Procs = pick(r, 4, 16)
				cse.TimeoutMS = 120000
				cs = append(cs, cse)
			}
			np := 4
			if tier == "thorough" {
				np = 30
			}
			for i := 0; i < np; i++ {
				cse := core.MkCase("C02", "counter", i, seed, nil)
				cse.Race = i%2 == 0
				cs = append(cs, cse)
			}
			nr := 16
			if tier == "thorough" {
				nr = 160
			}
			for i := 0; i < nr; i++ {
				p := c02RunParams{Conc: pick(r, 1, 2, 4, 16), StopAt: 4 + r.IntN(12), Body: pick(r, "instant", "spin", "sleep"), IvUS: pick(r, 2000, 5000, 10000)}
				for k := 0; k <= p.StopAt; k++ {
					p.Values = append(p.Values, pick(r, 0, 1, p.Conc, 3*p.Conc+1, 7, 100))
				}
				p.SetupMark = i%4 == 3
				cse := core.MkCase("C02", "run", i, seed, p)
				cse.Race = true
				cse.Procs = pick(r, 1, 2, 16)
				cse.TimeoutMS = 60000
				cs = append(cs, cse)
			}
			// every request is started, the iterations outlive the run's completion timeout: started is not dropped
			for i := 0; i < map[string]int{"quick": 3, "thorough": 12}[tier]; i++ {
				cse := core.MkCase("C02", "timeoutdrop", i, seed, map[string]int{"c": 2 + i%3, "mode": i % 2})
				cse.Race = i%2 == 0
				cse.TimeoutMS = 60000
				cs = append(cs, cse)
			}
			// runs that end by their max-duration (or a config-file stage by its own) with ticks every few milliseconds
			for i := 0; i < map[string]int{"quick": 6, "thorough": 48}[tier]; i++ {
				p := c02RunParams{Conc: pick(r, 1, 2, 16), StopAt: -1, Body: pick(r, "instant", "spin", "sleep"), IvUS: pick(r, 2000, 3000, 5000, 7000)}
				for k := 0; k < 16; k++ {
					p.Values = append(p.Values, pick(r, 1, 1, p.Conc, 3*p.Conc+1, 7))
				}
				p.DurMS = 120 + r.IntN(240)
				p.SetupMark = i%3 == 1
				cse := core.MkCase("C02", "deadline", i, seed, p)
				cse.Race = i%2 == 0
				cse.Procs = pick(r, 2, 16)
				cse.TimeoutMS = 60000
				cs = append(cs, cse)
			}
			return cs
		},
		Kinds:  map[string]core.RunFunc{"timeoutdrop": c02TimeoutDrop, "deadline": c02Deadline, "script": c02Script, "hook": c02Hook, "stress": c02Stress, "counter": c02Counter, "run": c02Run, "limitrace": c02LimitRace, "hammer": c02Hammer, "filecancel": c02FileCancel, "filelimit": c02FileLimit, "extremes": c02Extremes, "dualdrop": c02DualDrop},
		Floors: map[string]int64{"script_steps": 500, "steps_superseding": 50, "steps_stop_with_pending": 10, "steps_limit_silent": 10, "hook_schedules_formed": 6, "stress_drops": 1000, "porcupine_histories": 400},
	})
}

// ---------------------------------------------------------------- gated scenario

type gatedBodies struct {
	mu      sync.Mutex
	waiting []chan struct{}
	started atomic.Int64
	ended   atomic.Int64
	tracker *engine.Tracker
}

func (g *gatedBodies) scenario() f1testing.ScenarioFn {
	return func(t *f1testing.T) f1testing.RunFn {
		return func(t *f1testing.T) {
			defer g.tracker.Enter(t)()
			ch := make(chan struct{})
			g.mu.Lock()
			g.waiting = append(g.waiting, ch)
			g.mu.Unlock()
			g.started.Add(1)
			<-ch
			g.ended.Add(1)
		}
	}
}

// release opens up to k gates (oldest first) and returns how many were opened.
func (g *gatedBodies) release(k int) int {
	g.mu.Lock()
	defer g.mu.Unlock()
	n := 0
	for n < k && len(g.waiting) > 0 {
		close(g.waiting[0])
		g.waiting = g.waiting[1:]
		n++
	}
	return n
}

func (g *gatedBodies) gated() int {
	g.mu.Lock()
	defer g.mu.Unlock()
	return len(g.waiting)
}

func droppedOf(env *engine.PoolEnv) uint64 {
	fams, err := engine.Gather(env.Registry)
	if err != nil {
		return ^uint64(0)
	}
	return engine.IterationCounts(fams)["dropped"]
}

// ---------------------------------------------------------------- reference model

type c02Model struct {
	p, idle, busy int
	iter, N       uint64
	S, D          int64
	limit, stop   bool
	silent        int64 // requests discarded silently because of the limit
}

func (m *c02Model) dispatch() {
	for m.p > 0 && m.idle > 0 && !m.limit && !m.stop {
		m.p--
		m.idle--
		m.iter++
		if m.N > 0 && m.iter > m.N {
			m.limit = true
			m.stop = true
			m.silent += int64(m.p) + 1
			m.p = 0
			m.idle = 0 // idle workers leave
			return
		}
		m.S++
		m.busy++
	}
}

func (m *c02Model) tick(n int) {
	if m.stop || m.limit {
		return
	}
	m.D += int64(m.p)
	m.p = n
	m.dispatch()
}

func (m *c02Model) release(k int) int {
	if k > m.busy {
		k = m.busy
	}
	for i := 0; i < k; i++ {
		m.busy--
		if !m.stop {
			m.idle++
			m.dispatch()
		}
	}
	return k
}

func (m *c02Model) cancel() {
	if m.stop {
		return
	}
	m.stop = true
	if !m.limit {
		m.D += int64(m.p)
	}
	m.p = 0
	m.idle = 0
}

func c02Script(c *core.Case, o *core.Outcome) {
	var p c02ScriptParams
	c.Params(&p)
	g := &gatedBodies{tracker: engine.NewTracker()}
	env := engine.NewPoolEnv("script", g.scenario(), p.Limit, nil)
	ctx, cancel := context.WithCancel(context.Background())
	defer cancel()
	pool := env.Manager.NewTriggerPool(p.W)
	wctx := pool.Start(ctx)
	m := &c02Model{idle: p.W, N: p.Limit}
	desc := fmt.Sprintf("workers=%d limit=%d steps=%v", p.W, p.Limit, p.Steps)
	key := "script:" + desc
	if len(key) > 300 {
		key = key[:300]
	}
	finish := func() {
		cancel()
		for i := 0; i < 200; i++ {
			g.release(1 << 20)
			select {
			case <-env.Manager.WaitForCompletion():
				return
			case <-time.After(20 * time.Millisecond):
			}
		}
	}
	settle := func(step int, st c02Step) bool {
		if !waitUntil(8*time.Second, func() bool { return g.started.Load() >= m.S }) {
			o.Violate(key, "after step %d %+v the model expects %d started iterations, only %d started within 8 s (gated %d, model pending %d idle %d busy %d) (%s)", step, st, m.S, g.started.Load(), g.gated(), m.p, m.idle, m.busy, desc)
			return false
		}
		if !waitUntil(8*time.Second, func() bool { return int64(droppedOf(env)) >= m.D }) {
			o.Violate(key, "after step %d %+v the model expects %d dropped, only %d were reported within 8 s (%s)", step, st, m.D, droppedOf(env), desc)
			return false
		}
		runtime.Gosched()
		time.Sleep(300 * time.Microsecond)
		if g.started.Load() != m.S || int64(droppedOf(env)) != m.D {
			o.Violate(key, "after step %d %+v: started %d (model %d), dropped %d (model %d) (%s)", step, st, g.started.Load(), m.S, droppedOf(env), m.D, desc)
			return false
		}
		return true
	}
	for i, st := range p.Steps {
		beforeD, beforeP, beforeLimit := m.D, m.p, m.limit
		switch st.Op {
		case "tick":
			pool.Trigger(wctx, st.N)
			m.tick(st.N)
			if m.D > beforeD {
				o.AddObs("steps_superseding", 1)
			}
		case "release":
			k := m.release(st.N)
			if got := g.release(k); got != k {
				o.Violate(key, "step %d: model has %d busy bodies to release, only %d are gated (%s)", i, k, got, desc)
				finish()
				return
			}
		case "cancel":
			cancel()
			m.cancel()
			if m.D > beforeD {
				o.AddObs("steps_stop_with_pending", 1)
			}
		}
		if m.limit && !beforeLimit && (beforeP > 1 || m.silent > 1) {
			o.AddObs("steps_limit_silent", 1)
		}
		o.AddObs("script_steps", 1)
		if !settle(i, st) {
			finish()
			return
		}
	}
	// end: stop, let every body finish, compare exactly
	cancel()
	m.cancel()
	if !waitUntil(8*time.Second, func() bool { return int64(droppedOf(env)) >= m.D }) {
		o.Violate(key, "at the end the model expects %d dropped, %d reported (%s)", m.D, droppedOf(env), desc)
		finish()
		return
	}
	m.release(1 << 20)
	completed := false
	for i := 0; i < 400 && !completed; i++ {
		g.release(1 << 20)
		select {
		case <-env.Manager.WaitForCompletion():
			completed = true
		case <-time.After(20 * time.Millisecond):
		}
	}
	if !completed {
		o.Violate(key, "the pool did not complete within 8 s after cancellation with every body released (%s)", desc)
		return
	}
	time.Sleep(time.Millisecond)
	if g.started.Load() != m.S || int64(droppedOf(env)) != m.D {
		o.Violate(key, "final: started %d (model %d), dropped %d (model %d), silently discarded by the limit per model %d (%s)", g.started.Load(), m.S, droppedOf(env), m.D, m.silent, desc)
		return
	}
	if pr := g.tracker.Problems(); len(pr) > 0 {
		o.Violate(key, "%s (%s)", joinProblems(pr), desc)
		return
	}
	o.Events = g.started.Load() + int64(len(p.Steps))
	ops := map[string]bool{}
	for _, st := range p.Steps {
		ops[st.Op] = true
	}
	if m.D > 0 || m.silent > 0 {
		o.Sig("script:w=%d:limit=%v:cancel=%v:D>0=%v:silent>0=%v", p.W, p.Limit > 0, ops["cancel"], m.D > 0, m.silent > 0)
	}
	o.Sample = map[string]any{"script": desc, "started": m.S, "dropped": m.D, "silently_discarded_by_limit": m.silent}
}

// ---------------------------------------------------------------- scripted races at hooks

func c02Hook(c *core.Case, o *core.Outcome) {
	var p c02HookParams
	c.Params(&p)
	hc := engine.NewHookCtl(c.Seed)
	g := &gatedBodies{tracker: engine.NewTracker()}
	ctx, cancel := context.WithCancel(context.Background())
	defer cancel()
	key := "hook:" + p.Schedule
	arrived := func(pk *engine.Park) bool {
		select {
		case <-pk.Arrived:
			return true
		case <-time.After(8 * time.Second):
			return false
		}
	}
	complete := func(env *engine.PoolEnv) bool {
		for i := 0; i < 400; i++ {
			g.release(1 << 20)
			select {
			case <-env.Manager.WaitForCompletion():
				return true
			case <-time.After(20 * time.Millisecond):
			}
		}
		return false
	}
	started := func(n int64) bool { return waitUntil(8*time.Second, func() bool { return g.started.Load() >= n }) }
	var env *engine.PoolEnv
	var S, D int64 // expectations
	switch p.Schedule {
	case "limit-tick":
		// N=2, one worker: the tick of 7 lands between the limit path's discard and its cancel
		pk := hc.ParkNth("pool.limit.beforeCancel", 1)
		hc.Install()
		defer hc.Uninstall()
		env = engine.NewPoolEnv("hook", g.scenario(), 2, nil)
		pool := env.Manager.NewTriggerPool(1)
		wctx := pool.Start(ctx)
		pool.Trigger(wctx, 3)
		if !started(1) {
			o.Inconc("schedule did not form: first body")
			return
		}
		g.release(1)
		if !started(2) {
			o.Inconc("schedule did not form: second body")
			return
		}
		g.release(1) // worker asks for id 3, is refused, parks between discard and cancel
		if !arrived(pk) {
			o.Inconc("schedule did not form: limit path never reached the hook")
			return
		}
		pool.Trigger(wctx, 7)
		pk.Release()
		S, D = 2, 0
	case "tick-through-limit-shutdown":
		// N=2, one worker: a tick of 4 has passed its context check when the limit is reached; it is held while
		// the whole limit shutdown (discard, cancel, stop drain) completes and only then reaches the pool. Its
		// requests cannot start solely because of the limit: not dropped.
		pk := hc.ParkNth("pool.trigger.afterCtxCheck", 2)
		hc.Install()
		defer hc.Uninstall()
		env = engine.NewPoolEnv("hook", g.scenario(), 2, nil)
		pool := env.Manager.NewTriggerPool(1)
		wctx := pool.Start(ctx)
		pool.Trigger(wctx, 3)
		if !started(1) {
			o.Inconc("schedule did not form: first body")
			return
		}
		g.release(1)
		if !started(2) {
			o.Inconc("schedule did not form: second body")
			return
		}
		tdone := make(chan struct{})
		go func() { pool.Trigger(wctx, 4); close(tdone) }()
		if !arrived(pk) {
			o.Inconc("schedule did not form: Trigger never reached the hook")
			return
		}
		g.release(1) // the worker asks for id 3 and is refused: the limit shutdown runs to its end
		if !waitUntil(8*time.Second, func() bool { return wctx.Err() != nil }) {
			o.Inconc("schedule did not form: limit not noticed")
			pk.Release()
			return
		}
		select {
		case <-env.Manager.WaitForCompletion():
		case <-time.After(8 * time.Second):
			o.Inconc("schedule did not form: pool did not complete after the limit")
			pk.Release()
			return
		}
		pk.Release()
		<-tdone
		time.Sleep(20 * time.Millisecond)
		S, D = 2, 0
	case "trigger-after-ctx-check":
		pk := hc.ParkNth("pool.trigger.afterCtxCheck", 2)
		hc.Install()
		defer hc.Uninstall()
		env = engine.NewPoolEnv("hook", g.scenario(), 0, nil)
		pool := env.Manager.NewTriggerPool(2)
		wctx := pool.Start(ctx)
		pool.Trigger(wctx, 5) // committed: 2 start, 3 pending
		if !started(2) {
			o.Inconc("schedule did not form")
			return
		}
		tdone := make(chan struct{})
		go func() { pool.Trigger(wctx, 4); close(tdone) }() // parks after its context check
		if !arrived(pk) {
			o.Inconc("schedule did not form: Trigger never reached the hook")
			return
		}
		cancel() // stop drains the 3 pending
		if !waitUntil(8*time.Second, func() bool { return droppedOf(env) >= 3 }) {
			o.Violate(key, "3 committed requests were pending when triggering stopped but only %d were reported dropped", droppedOf(env))
			pk.Release()
			complete(env)
			return
		}
		pk.Release()
		<-tdone
		if !complete(env) {
			o.Violate(key, "pool did not complete after the late Trigger")
			return
		}
		// committed: 5 => S=2, D=3. The concurrent tick of 4 may be discarded or dropped, never started twice.
		s, d := g.started.Load(), int64(droppedOf(env))
		o.Events = s + d
		if s+d < 5 || s+d > 9 || s != 2 {
			o.Violate(key, "committed 5 requests + 4 concurrent with cancellation: started %d dropped %d (expected started 2, 5 <= started+dropped <= 9)", s, d)
			return
		}
		o.AddObs("hook_schedules_formed", 1)
		o.Sig("hook:%s", p.Schedule)
		o.Sample = map[string]any{"schedule": p.Schedule, "started": s, "dropped": d, "hooks": hc.ReachedCounts()}
		return
	case "take-superseded":
		pk := hc.ParkNth("pool.worker.beforeTake", 1)
		hc.Install()
		defer hc.Uninstall()
		env = engine.NewPoolEnv("hook", g.scenario(), 0, nil)
		pool := env.Manager.NewTriggerPool(1)
		wctx := pool.Start(ctx)
		pool.Trigger(wctx, 2)
		if !arrived(pk) {
			o.Inconc("schedule did not form: worker never reached the hook")
			return
		}
		pool.Trigger(wctx, 3) // supersedes both untaken requests
		if d := droppedOf(env); d != 2 {
			o.Violate(key, "a tick of 3 superseded a tick of 2 of which nothing had been taken: %d reported dropped, expected 2", d)
			pk.Release()
			cancel()
			complete(env)
			return
		}
		pk.Release()
		if !started(1) {
			o.Violate(key, "the parked worker did not start an iteration of the new tick")
			cancel()
			complete(env)
			return
		}
		cancel() // stop drains the 2 requests still pending
		if !waitUntil(8*time.Second, func() bool { return droppedOf(env) >= 4 }) {
			o.Violate(key, "2 requests were pending when triggering stopped (plus 2 superseded earlier): %d reported dropped, expected 4", droppedOf(env))
			complete(env)
			return
		}
		S, D = 1, 4
	case "take-stop":
		pk := hc.ParkNth("pool.worker.beforeTake", 1)
		hc.Install()
		defer hc.Uninstall()
		env = engine.NewPoolEnv("hook", g.scenario(), 0, nil)
		pool := env.Manager.NewTriggerPool(1)
		wctx := pool.Start(ctx)
		pool.Trigger(wctx, 2)
		if !arrived(pk) {
			o.Inconc("schedule did not form")
			return
		}
		cancel()
		if !waitUntil(8*time.Second, func() bool { return droppedOf(env) >= 2 }) {
			o.Violate(key, "2 requests pending at stop, %d reported dropped", droppedOf(env))
			pk.Release()
			complete(env)
			return
		}
		pk.Release()
		S, D = 0, 2
	case "take-limit":
		pk := hc.ParkNth("pool.worker.beforeTake", 1)
		hc.Install()
		defer hc.Uninstall()
		env = engine.NewPoolEnv("hook", g.scenario(), 1, nil)
		pool := env.Manager.NewTriggerPool(2)
		wctx := pool.Start(ctx)
		pool.Trigger(wctx, 2)
		if !arrived(pk) {
			o.Inconc("schedule did not form")
			return
		}
		if !started(1) {
			o.Inconc("schedule did not form: second worker did not start")
			return
		}
		g.release(1) // second worker takes the remaining request, is refused id 2: limit reached
		if !waitUntil(8*time.Second, func() bool { return wctx.Err() != nil }) {
			o.Inconc("limit not noticed")
			pk.Release()
			return
		}
		pk.Release()
		S, D = 1, 0
	case "stop-before-drain":
		pk := hc.ParkNth("pool.stop.beforeDrain", 1)
		hc.Install()
		defer hc.Uninstall()
		env = engine.NewPoolEnv("hook", g.scenario(), 0, nil)
		pool := env.Manager.NewTriggerPool(1)
		wctx := pool.Start(ctx)
		pool.Trigger(wctx, 5)
		if !started(1) {
			o.Inconc("schedule did not form")
			return
		}
		cancel()
		if !arrived(pk) {
			o.Inconc("schedule did not form: stop path never reached the hook")
			return
		}
		g.release(1) // the only worker exits
		select {
		case <-env.Manager.WaitForCompletion():
			d := droppedOf(env)
			pk.Release()
			o.Violate(key, "completion was signalled while the stop path had not yet drained 4 pending requests: totals taken now report %d dropped instead of 4", d)
			return
		case <-time.After(150 * time.Millisecond):
		}
		pk.Release()
		S, D = 1, 4
	default:
		o.Inconc("harness: unknown schedule")
		return
	}
	if !complete(env) {
		o.Violate(key, "pool did not complete within 8 s")
		return
	}
	time.Sleep(time.Millisecond)
	s, d := g.started.Load(), int64(droppedOf(env))
	o.Events = s + d + 4
	if s != S || d != D {
		o.Violate(key, "schedule %s: started %d dropped %d, expected started %d dropped %d", p.Schedule, s, d, S, D)
		return
	}
	o.AddObs("hook_schedules_formed", 1)
	for site, n := range hc.ReachedCounts() {
		o.AddObs("hook:"+site, n)
	}
	o.Sig("hook:%s", p.Schedule)
	o.Sample = map[string]any{"schedule": p.Schedule, "started": s, "dropped": d, "hooks": hc.ReachedCounts()}
}

// ---------------------------------------------------------------- stress

func c02Stress(c *core.Case, o *core.Outcome) {
	var p c02StressParams
	c.Params(&p)
	var hc *engine.HookCtl
	if p.Perturb {
		hc = engine.NewHookCtl(c.Seed + 3)
		for _, s := range []string{"pool.trigger.afterCtxCheck", "pool.limit.beforeCancel", "pool.worker.beforeTake", "pool.worker.afterTake", "pool.stop.beforeDrain", "pool.send.beforeRecordDrops", "pool.worker.beforeWait"} {
			hc.Perturb(s, 0.02)
		}
		hc.Perturb("pool.stop.beforeDrain", 1)
		hc.Install()
		defer hc.Uninstall()
	}
	k := engine.NewTracker()
	salt := c.Rng("salt").Uint64()
	scenario := func(t *f1testing.T) f1testing.RunFn {
		return func(t *f1testing.T) {
			defer k.Enter(t)()
			spin(time.Duration((engine.IDOf(t)*2654435761+salt)%200) * time.Microsecond / 4)
		}
	}
	env := engine.NewPoolEnv("stress", scenario, p.Limit, nil)
	ctx, cancel := context.WithCancel(context.Background())
	defer cancel()
	pool := env.Manager.NewTriggerPool(p.W)
	wctx := pool.Start(ctx)
	r := c.Rng("ticks")
	var committed, all int64
	cancelAt := p.Ticks/2 + r.IntN(p.Ticks/2)
	var cancelled atomic.Bool
	for i := 0; i < p.Ticks; i++ {
		n := pick(r, 0, 1, p.W-1, p.W, 10*p.W, 3, 2*p.W+1)
		if n < 0 {
			n = 0
		}
		if p.BigTick && i == cancelAt-1 {
			n = 60000
		}
		if n > 3000 && !p.BigTick {
			n = 3000
		}
		if i == cancelAt {
			// cancel concurrently with this tick
			delay := time.Duration(r.IntN(50)) * time.Microsecond
			go func() { spin(delay); cancelled.Store(true); cancel() }()
		}
		wasCancelled := cancelled.Load()
		all += int64(n)
		pool.Trigger(wctx, n)
		if !wasCancelled && !cancelled.Load() {
			committed += int64(n)
		}
		if i > cancelAt+3 {
			break
		}
		spin(time.Duration(r.IntN(400)) * time.Microsecond)
	}
	cancel()
	select {
	case <-env.Manager.WaitForCompletion():
	case <-time.After(30 * time.Second):
		o.Violate("stress-hang", "pool did not complete within 30 s after cancellation (workers=%d)", p.W)
		return
	}
	S := k.Started.Load()
	D := int64(droppedOf(env))
	time.Sleep(2 * time.Millisecond)
	D2 := int64(droppedOf(env))
	desc := fmt.Sprintf("workers=%d limit=%d ticks=%d perturb=%v bigtick=%v procs=%d", p.W, p.Limit, p.Ticks, p.Perturb, p.BigTick, c.Procs)
	o.Events = S + D + int64(p.Ticks)
	if D2 != D {
		o.Violate("stress-late-drops", "dropped count moved from %d to %d after completion was signalled: drop accounting outlived completion (%s)", D, D2, desc)
		return
	}
	if p.Limit == 0 {
		if S+D < committed || S+D > all {
			o.Violate("stress-conservation", "requested %d (committed before cancellation %d): started %d + dropped %d = %d is outside [%d, %d] (%s)", all, committed, S, D, S+D, committed, all, desc)
			return
		}
	} else {
		if uint64(S) > p.Limit || S+D > all {
			o.Violate("stress-limit", "limit %d, requested %d: started %d dropped %d (%s)", p.Limit, all, S, D, desc)
			return
		}
	}
	if pr := k.Problems(); len(pr) > 0 {
		o.Violate("stress-ids", "%s (%s)", joinProblems(pr), desc)
		return
	}
	o.AddObs("stress_drops", D)
	o.AddObs("stress_started", S)
	if hc != nil {
		for site, n := range hc.ReachedCounts() {
			o.AddObs("hook:"+site, n)
		}
	}
	if D > 0 {
		o.Sig("stress:w=%d:limit=%v:perturb=%v:big=%v:procs=%d", p.W, p.Limit > 0, p.Perturb, p.BigTick, c.Procs)
	}
	o.Sample = map[string]any{"case": desc, "requested": all, "committed": committed, "started": S, "dropped": D}
}

// ---------------------------------------------------------------- porcupine on the real pending counter

func c02Counter(c *core.Case, o *core.Outcome) {
	type in struct {
		op string
		n  int
	}
	model := porcupine.Model{
		Init: func() any { return int64(0) },
		Step: func(st, input, output any) (bool, any) {
			n := st.(int64)
			i := input.(in)
			switch i.op {
			case "set":
				return output.(int64) == n, int64(i.n)
			case "none":
				return output.(bool) == (n <= 0), n
			default: // take
				return output.(bool) == (n-1 >= 0), n - 1
			}
		},
	}
	r := c.Rng("counter")
	for h := 0; h < 300; h++ {
		var jc workers.VerifJobCounter
		var ops []porcupine.Operation
		var mu sync.Mutex
		var clock atomic.Int64
		var wg sync.WaitGroup
		start := make(chan struct{})
		clients := 2 + r.IntN(3)
		for cl := 0; cl < clients; cl++ {
			seq := make([]in, 3+r.IntN(3))
			for i := range seq {
				switch r.IntN(4) {
				case 0:
					seq[i] = in{"set", r.IntN(4)}
				case 1:
					seq[i] = in{"none", 0}
				default:
					seq[i] = in{"take", 0}
				}
			}
			wg.Add(1)
			go func(cl int, seq []in) {
				defer wg.Done()
				<-start
				for _, s := range seq {
					call := clock.Add(1)
					var out any
					switch s.op {
					case "set":
						out = jc.Set(s.n)
					case "none":
						out = jc.None()
					default:
						out = jc.Take()
					}
					ret := clock.Add(1)
					mu.Lock()
					ops = append(ops, porcupine.Operation{ClientId: cl, Input: s, Call: call, Output: out, Return: ret})
					mu.Unlock()
				}
			}(cl, seq)
		}
		close(start)
		wg.Wait()
		res := porcupine.CheckOperationsTimeout(model, ops, 20*time.Second)
		o.Events += int64(len(ops))
		o.AddObs("porcupine_histories", 1)
		if res == porcupine.Illegal {
			o.Violate("counter-linearizability", "pending-counter history is not linearizable against the sequential Set/None/Take model: %v", ops)
			return
		}
		if res == porcupine.Unknown {
			o.AddObs("porcupine_unknown", 1)
		}
	}
	o.Sig("counter:race=%v", c.Race)
	o.Sample = map[string]any{"histories": 300}
}

// ---------------------------------------------------------------- whole run, stop from inside evaluation m

// c02TimeoutDrop: one tick asks for exactly as many iterations as there are workers; all of them start and are still
// executing when the run ends and its completion timeout (150 ms) expires. A request that was started is not a dropped one:
// the result reports no dropped iteration, then and after the bodies have ended.
func c02TimeoutDrop(c *core.Case, o *core.Outcome) {
	var pp map[string]int
	c.Params(&pp)
	cc := pp["c"]
	l := engine.NewLog()
	gate := make(chan struct{})
	var started, ended atomic.Int64
	scenario := func(*f1testing.T) f1testing.RunFn {
		return func(*f1testing.T) {
			started.Add(1)
			<-gate
			ended.Add(1)
		}
	}
	spec := engine.Spec{Mode: "users", Concurrency: cc, MaxDurationMS: 250, CompletionMS: 150, IgnoreDropped: false}
	if pp["mode"] == 1 {
		// one tick of c requests, the next one a minute later
		spec = engine.RateSpec("constant", cc, 60000, cc)
		spec.MaxDurationMS, spec.CompletionMS = 250, 150
	}
	r := engine.Execute(context.Background(), spec, l, scenario, nil, nil)
	close(gate)
	if r.NewErr != nil {
		o.Inconc("harness: cannot build run: %v", r.NewErr)
		return
	}
	desc := fmt.Sprintf("mode=%s c=%d: %d requests, all started, none finished before the 150 ms completion timeout expired", spec.Mode, cc, cc)
	o.Events = started.Load() + int64(l.Len())
	if started.Load() != int64(cc) {
		o.Inconc("%d iterations started, %d planned (%s)", started.Load(), cc, desc)
		return
	}
	_, _, dr := resultCounts(r)
	late := uint64(0)
	for deadline := time.Now().Add(2 * time.Second); ended.Load() < int64(cc) && time.Now().Before(deadline); {
		time.Sleep(5 * time.Millisecond)
	}
	time.Sleep(50 * time.Millisecond)
	if fams, err := engine.Gather(r.Registry); err == nil {
		late = engine.IterationCounts(fams)["dropped"]
	}
	if dr != 0 || late != 0 {
		o.Violate("timeoutdrop:"+desc, "the result reports %d dropped iterations (the iteration metric %d) although every request was started: requested %d, started %d (%s)", dr, late, cc, started.Load(), desc)
		return
	}
	o.Sig("timeoutdrop:mode=%s:c=%d", spec.Mode, cc)
	o.Sample = map[string]any{"case": desc, "dropped": dr}
}

// c02Deadline: a run that triggers every few milliseconds until its max-duration stops it. A tick that was followed by
// another rate evaluation made while triggering was still on has been handed to the pool, and the call returned, before
// triggering stopped: its requests are committed. Committed requests are started or reported dropped; nothing beyond what
// was requested is.
func c02Deadline(c *core.Case, o *core.Outcome) {
	var p c02RunParams
	c.Params(&p)
	l := engine.NewLog()
	var started atomic.Int64
	salt := c.Rng("salt").Uint64()
	scenario := func(setupT *f1testing.T) f1testing.RunFn {
		return func(t *f1testing.T) {
			if started.Add(1) == 2 && p.SetupMark {
				setupT.Errorf("reported through the handle captured in setup")
			}
			bodyWork(p.Body, engine.IDOf(t)*2654435761+salt)
		}
	}
	var mu sync.Mutex
	var trigCtx context.Context
	var all, before, committed int64
	var nAll, nCommitted int
	hooks := &engine.Hooks{
		OnTrigger: func(ctx context.Context) { mu.Lock(); trigCtx = ctx; mu.Unlock() },
		OnRate: func(k int, _ time.Time, v int) int {
			mu.Lock()
			if trigCtx != nil && trigCtx.Err() == nil {
				committed, nCommitted = before, nAll
			}
			all += int64(v)
			before = all
			nAll++
			mu.Unlock()
			return v
		},
	}
	spec := engine.Spec{Mode: "custom", CustomIntervalUS: p.IvUS, CustomRates: p.Values, Concurrency: p.Conc, MaxDurationMS: p.DurMS, IgnoreDropped: true}
	spec.NoIterationMetrics = c.Rng("metrics").IntN(3) == 0
	r := engine.Execute(context.Background(), spec, l, scenario, hooks, nil)
	if r.NewErr != nil {
		o.Inconc("harness: cannot build run: %v", r.NewErr)
		return
	}
	su, fa, dr := resultCounts(r)
	got := int64(su + fa + dr)
	desc := fmt.Sprintf("values=%v (the last repeats) c=%d body=%s interval=%dus max-duration=%dms itermetrics=%v", p.Values, p.Conc, p.Body, p.IvUS, p.DurMS, !spec.NoIterationMetrics)
	o.Events = started.Load() + int64(nAll)
	if int64(su+fa) != started.Load() {
		o.Violate("deadline-started:"+desc, "%d bodies ran, the result reports %d started (%s)", started.Load(), su+fa, desc)
		return
	}
	if got < committed || got > all {
		o.Violate("deadline-conservation:"+desc, "%d ticks were each followed by a rate evaluation made while triggering was still on; they requested %d iterations (all %d evaluations: %d); the run reports %d started + %d dropped = %d (%s)", nCommitted, committed, nAll, all, su+fa, dr, got, desc)
		return
	}
	if nCommitted < 10 {
		o.Inconc("only %d ticks were committed (%s)", nCommitted, desc)
		return
	}
	o.AddObs("stress_drops", int64(dr))
	o.AddObs("deadline_ticks_committed", int64(nCommitted))
	o.Sig("deadline:c=%d:body=%s:iv=%d:procs=%d", p.Conc, p.Body, p.IvUS, c.Procs)
	o.Sample = map[string]any{"case": desc, "committed": committed, "requested": all, "started": su + fa, "dropped": dr}
}

func c02Run(c *core.Case, o *core.Outcome) {
	var p c02RunParams
	c.Params(&p)
	l := engine.NewLog()
	ctx, cancel := context.WithCancel(context.Background())
	defer cancel()
	var started atomic.Int64
	salt := c.Rng("salt").Uint64()
	scenario := func(setupT *f1testing.T) f1testing.RunFn {
		return func(t *f1testing.T) {
			if started.Add(1) == 2 && p.SetupMark {
				setupT.Errorf("reported through the handle captured in setup")
			}
			bodyWork(p.Body, engine.IDOf(t)*2654435761+salt)
		}
	}
	hooks := &engine.Hooks{OnRate: func(k int, _ time.Time, v int) int {
		if k == p.StopAt {
			cancel()
		}
		return v
	}}
	spec := engine.Spec{Mode: "custom", CustomIntervalUS: p.IvUS, CustomRates: p.Values, Concurrency: p.Conc, MaxDurationMS: 60000, IgnoreDropped: true}
	// a third of the runs have iteration metrics disabled (the default without a push gateway): the result
	// accounts for every request all the same
	spec.NoIterationMetrics = c.Rng("metrics").IntN(3) == 0
	r := engine.Execute(ctx, spec, l, scenario, hooks, nil)
	if r.NewErr != nil {
		o.Inconc("harness: cannot build run: %v", r.NewErr)
		return
	}
	sum := 0
	for _, v := range p.Values[:p.StopAt] {
		sum += v
	}
	su, fa, dr := resultCounts(r)
	desc := fmt.Sprintf("values=%v stopAt=%d c=%d body=%s interval=%dus itermetrics=%v", p.Values, p.StopAt, p.Conc, p.Body, p.IvUS, !spec.NoIterationMetrics)
	o.Events = started.Load() + int64(l.Len())
	if int(su+fa+dr) != sum || int64(su+fa) != started.Load() {
		o.Violate("run-conservation:"+desc, "ticks applied before the stop requested %d iterations; %d started (%d bodies ran) and %d dropped, total %d (%s)", sum, su+fa, started.Load(), dr, su+fa+dr, desc)
		return
	}
	o.AddObs("stress_drops", int64(dr))
	if dr > 0 {
		o.Sig("run:c=%d:body=%s:procs=%d:itermetrics=%v", p.Conc, p.Body, c.Procs, !spec.NoIterationMetrics)
	}
	o.Sample = map[string]any{"case": desc, "requested": sum, "started": su + fa, "dropped": dr}
}

// c02LimitRace repeats the moment the limit is hit with requests still pending many thousands of
// times on fresh pools: whatever the order in which the refused worker and the pool's stop path
// get to run, the leftovers must never be reported as dropped.
func c02LimitRace(c *core.Case, o *core.Outcome) {
	var pp map[string]int
	c.Params(&pp)
	trials, w := pp["trials"], pp["w"]
	if c.Race {
		trials /= 4
	}
	var started atomic.Int64
	env := engine.NewPoolEnv("limitrace", func(t *f1testing.T) f1testing.RunFn {
		return func(t *f1testing.T) { started.Add(1) }
	}, 0, nil)
	r := c.Rng("limitrace")
	for i := 0; i < trials; i++ {
		limit := uint64(1 + r.IntN(3))
		tick := int(limit) + 2 + r.IntN(6)
		m := engine.NewPoolManager(limit, env.Active)
		ctx, cancel := context.WithCancel(context.Background())
		pool := m.NewTriggerPool(w)
		wctx := pool.Start(ctx)
		before := started.Load()
		pool.Trigger(wctx, tick)
		select {
		case <-m.WaitForCompletion():
		case <-time.After(20 * time.Second):
			cancel()
			o.Violate("limitrace-hang", "trial %d: pool with limit %d and a tick of %d did not complete within 20 s", i, limit, tick)
			return
		}
		cancel()
		if d := droppedOf(env); d != 0 {
			o.Violate("limit-leftover-dropped", "trial %d (workers=%d limit=%d tick=%d): the requests left over when max-iterations was reached were reported as %d dropped iterations; they must be discarded silently", i, w, limit, tick, d)
			return
		}
		if got := started.Load() - before; uint64(got) != limit {
			o.Violate("limitrace-count", "trial %d: %d iterations started with limit %d and a tick of %d", i, got, limit, tick)
			return
		}
	}
	o.Events = int64(trials)
	o.AddObs("limit_race_trials", int64(trials))
	o.Sig("limitrace:w=%d:procs=%d:race=%v", w, c.Procs, c.Race)
	o.Sample = map[string]any{"trials": trials, "workers": w}
}

// c02Hammer: many idle workers, back-to-back ticks of 1-2 requests and instant bodies - the regime in
// which failed takes by idle workers interleave with the next tick's swap.
func c02Hammer(c *core.Case, o *core.Outcome) {
	var pp map[string]int
	c.Params(&pp)
	ticks, w := pp["ticks"], pp["w"]
	if c.Race {
		ticks /= 4
	}
	var started atomic.Int64
	env := engine.NewPoolEnv("hammer", func(t *f1testing.T) f1testing.RunFn {
		return func(t *f1testing.T) { started.Add(1) }
	}, 0, nil)
	ctx, cancel := context.WithCancel(context.Background())
	defer cancel()
	pool := env.Manager.NewTriggerPool(w)
	wctx := pool.Start(ctx)
	r := c.Rng("hammer")
	var requested int64
	for i := 0; i < ticks; i++ {
		n := 1 + r.IntN(2)
		pool.Trigger(wctx, n)
		requested += int64(n)
	}
	cancel()
	select {
	case <-env.Manager.WaitForCompletion():
	case <-time.After(30 * time.Second):
		o.Violate("hammer-hang", "pool did not complete")
		return
	}
	S, D := started.Load(), int64(droppedOf(env))
	o.Events = requested
	if S+D != requested {
		o.Violate("hammer-conservation", "%d ticks of 1-2 requests to %d mostly idle workers: requested %d, started %d + dropped %d = %d", ticks, w, requested, S, D, S+D)
		return
	}
	o.AddObs("stress_drops", D)
	o.AddObs("hammer_ticks", int64(ticks))
	o.Sig("hammer:w=%d:procs=%d:race=%v", w, c.Procs, c.Race)
	o.Sample = map[string]any{"ticks": ticks, "workers": w, "requested": requested, "started": S, "dropped": D}
}

// c02FileCancel: a config-file run is stopped (cancel or max-duration) while a tick of a rate stage
// is busy reporting a large superseded backlog as dropped. Whatever the run reports at its end must
// be final: the dropped count must not move after Do returned.
// c02DualDrop: one held worker, a tick of n (1 starts, n-1 pending), a second tick of n whose goroutine reports
// the n-1 superseded requests, and a cancel as soon as that report has begun: the stop path then reports the
// second tick's n pending requests concurrently. Every request is accounted for exactly once: 1 + (2n-1).
func c02DualDrop(c *core.Case, o *core.Outcome) {
	var pp map[string]int
	c.Params(&pp)
	n := pp["tick"]
	gate := make(chan struct{})
	var started atomic.Int64
	var env *engine.PoolEnv
	scenario := func(t *f1testing.T) f1testing.RunFn {
		return func(t *f1testing.T) {
			if started.Add(1) == 1 {
				<-gate
			}
		}
	}
	env = engine.NewPoolEnv("dualdrop", scenario, 0, nil)
	env.Metrics.IterationMetricsEnabled = pp["metrics"] == 1
	ctx, cancel := context.WithCancel(context.Background())
	defer cancel()
	pool := env.Manager.NewTriggerPool(1)
	wctx := pool.Start(ctx)
	pool.Trigger(wctx, n)
	if !waitUntil(10*time.Second, func() bool { return started.Load() == 1 }) {
		close(gate)
		o.Inconc("first body never started")
		return
	}
	tdone := make(chan struct{})
	go func() { pool.Trigger(wctx, n); close(tdone) }()
	// cancel once the second tick has begun to report
	waitUntil(10*time.Second, func() bool { return env.Stats.Total().DroppedIterationCount > 0 })
	overlapAt := env.Stats.Total().DroppedIterationCount
	cancel()
	<-tdone
	close(gate)
	select {
	case <-env.Manager.WaitForCompletion():
	case <-time.After(60 * time.Second):
		o.Inconc("pool did not complete")
		return
	}
	tot := env.Stats.Total()
	s, d := int64(tot.SuccessfulIterationDurations.Count+tot.FailedIterationDurations.Count), int64(tot.DroppedIterationCount)
	desc := fmt.Sprintf("two ticks of %d on one held worker, cancel while the second reports (%d reported at cancel), itermetrics=%v", n, overlapAt, pp["metrics"] == 1)
	o.Events = s + d
	// the second tick may have been discarded as a whole if it lost the race with cancellation: then 1 + (n-1)
	full, partial := int64(2*n), int64(n)
	if s != 1 || (s+d != full && s+d != partial) {
		o.Violate("dualdrop:"+fmt.Sprint(n), "requested %d (+%d if the second tick was applied): %d started + %d reported dropped = %d; reports from the ticking goroutine and the stop path must both count (%s)", partial, n, s, d, s+d, desc)
		return
	}
	if s+d == full && overlapAt < uint64(n)-1 {
		o.AddObs("dual_reporting_overlaps", 1)
		o.Sig("dualdrop:tick=%d:itermetrics=%v", n, pp["metrics"] == 1)
	}
	o.AddObs("stress_drops", d)
	o.Sample = map[string]any{"case": desc, "started": s, "dropped": d}
}

// c02Extremes: one tick on a pool of 4 idle workers with instant bodies.
// Far limit, small tick: every request starts (the limit is nowhere near). Small limit, tick beyond 32 bits:
// exactly `limit` requests start, the rest cannot start solely because of the limit (nothing dropped).
func c02Extremes(c *core.Case, o *core.Outcome) {
	var p map[string]uint64
	c.Params(&p)
	limit, tick := p["limit"], p["tick"]
	var started atomic.Int64
	env := engine.NewPoolEnv("extremes", func(t *f1testing.T) f1testing.RunFn {
		return func(t *f1testing.T) { started.Add(1) }
	}, limit, nil)
	ctx, cancel := context.WithCancel(context.Background())
	defer cancel()
	pool := env.Manager.NewTriggerPool(4)
	wctx := pool.Start(ctx)
	pool.Trigger(wctx, int(tick))
	want := int64(tick)
	if limit < tick {
		want = int64(limit)
	}
	desc := fmt.Sprintf("max-iterations=%d tick=%d workers=4", limit, tick)
	ok := waitUntil(10*time.Second, func() bool { return started.Load() >= want })
	limitSeen := waitUntil(300*time.Millisecond, func() bool { return wctx.Err() != nil })
	if limit >= tick {
		// the run goes on; stop it ourselves (nothing is pending)
		cancel()
	} else if !limitSeen {
		cancel()
		<-env.Manager.WaitForCompletion()
		o.Violate("extremes:"+desc, "a tick of %d requests with max-iterations %d: %d iterations started and the pool did not stop by its limit (%s)", tick, limit, started.Load(), desc)
		return
	}
	select {
	case <-env.Manager.WaitForCompletion():
	case <-time.After(20 * time.Second):
		o.Inconc("pool did not complete (%s)", desc)
		return
	}
	s, d := started.Load(), int64(droppedOf(env))
	o.Events = s + d + 1
	if !ok || s != want || d != 0 {
		o.Violate("extremes:"+desc, "one tick of %d requests on 4 idle workers with max-iterations %d: %d started, %d reported dropped; expected %d started and 0 dropped (%s)", tick, limit, s, d, want, desc)
		return
	}
	if limit >= tick && limitSeen {
		o.Violate("extremes-limit:"+desc, "the pool stopped by its limit after %d iterations although max-iterations is %d (%s)", s, limit, desc)
		return
	}
	o.AddObs("extreme_cases", 1)
	o.Sig("extremes:farlimit=%v:hugetick=%v", limit > 1<<62, tick > 1<<30)
	o.Sample = map[string]any{"case": desc, "started": s, "dropped": d}
}

// c02FileLimit: a config file with 2-4 rate-driven stages (tick = concurrency, instant bodies, so nothing is
// ever pending at a tick) whose max-iterations is reached early in the first stage. Whatever the later stages
// request cannot start solely because of the limit: it must not be reported dropped.
func c02FileLimit(c *core.Case, o *core.Outcome) {
	var pp map[string]int
	c.Params(&pp)
	cc, N := pp["c"], pp["n"]
	y := fmt.Sprintf("scenario: verifScenario\nlimits:\n  max-duration: 30s\n  concurrency: %d\n  max-iterations: %d\n  ignore-dropped: true\ndefault:\n  distribution: none\n  jitter: 0\nstages:\n", cc, N)
	for i := 0; i < pp["stages"]; i++ {
		y += fmt.Sprintf("- duration: %dms\n  mode: constant\n  rate: %d/20ms\n", pp["stage_ms"], cc)
	}
	l := engine.NewLog()
	ctx, cancel := context.WithCancel(context.Background())
	defer cancel()
	var started, requested atomic.Int64
	var backlogAtTick atomic.Bool
	stagesTicked := map[int]int{}
	var mu sync.Mutex
	scenario := func(t *f1testing.T) f1testing.RunFn {
		return func(t *f1testing.T) { started.Add(1) }
	}
	hooks := &engine.Hooks{StageRate: func(stage, k int, _ time.Time, v int) int {
		// every request of the earlier ticks has started (or the limit is reached): nothing pending at this tick
		if s, rq := started.Load(), requested.Load(); s < rq && s < int64(N) {
			backlogAtTick.Store(true)
		}
		requested.Add(int64(v))
		mu.Lock()
		stagesTicked[stage]++
		mu.Unlock()
		return v
	}}
	r := engine.Execute(ctx, engine.Spec{Mode: "filestages", YAML: y, CompletionMS: 20000}, l, scenario, hooks, nil)
	if r.NewErr != nil {
		o.Inconc("harness: %v", r.NewErr)
		return
	}
	su, fa, dr := resultCounts(r)
	fams, _ := engine.Gather(r.Registry)
	md := engine.IterationCounts(fams)["dropped"]
	mu.Lock()
	nst := len(stagesTicked)
	mu.Unlock()
	desc := fmt.Sprintf("file with %d constant stages of %d ms, rate %d/20ms, concurrency %d, max-iterations %d", pp["stages"], pp["stage_ms"], cc, cc, N)
	o.Events = started.Load() + requested.Load()
	if backlogAtTick.Load() {
		o.Inconc("a tick found requests of an earlier tick still pending before the limit (slow machine): drops cannot be attributed (%s)", desc)
		return
	}
	if su+fa != uint64(N) {
		o.Inconc("limit not reached: %d started of %d (%s)", su+fa, N, desc)
		return
	}
	if dr != 0 || md != 0 {
		o.Violate("filelimit-drops", "max-iterations %d was reached with no request ever pending at a tick; the run reports %d dropped (metrics %d) - requests that could not start solely because of the limit (ticks seen in %d stages, %d requested in total) (%s)", N, dr, md, nst, requested.Load(), desc)
		return
	}
	o.AddObs("filelimit_runs", 1)
	o.Sig("filelimit:stages=%d:c=%d:ticked_stages=%d", pp["stages"], cc, nst)
	o.Sample = map[string]any{"case": desc, "started": su + fa, "dropped": dr, "requested": requested.Load(), "stages_ticked": nst}
}

func c02FileCancel(c *core.Case, o *core.Outcome) {
	var pp map[string]int
	c.Params(&pp)
	maxDur := "30s"
	if pp["by_duration"] == 1 {
		maxDur = fmt.Sprintf("%dms", pp["cancel_ms"])
	}
	y := fmt.Sprintf("scenario: verifScenario\nlimits:\n  max-duration: %s\n  concurrency: 1\n  max-iterations: 0\n  ignore-dropped: true\ndefault:\n  distribution: none\n  jitter: 0\nstages:\n- duration: 20s\n  mode: constant\n  rate: %d/20ms\n", maxDur, pp["tick"])
	l := engine.NewLog()
	ctx, cancel := context.WithCancel(context.Background())
	defer cancel()
	gate := make(chan struct{})
	var started atomic.Int64
	scenario := func(t *f1testing.T) f1testing.RunFn {
		return func(t *f1testing.T) {
			if started.Add(1) == 1 {
				<-gate
			}
		}
	}
	// tick 0 is large (one request starts, the rest stays pending), tick 1 is small: it supersedes the
	// backlog and is busy reporting it as dropped when the run is stopped; the stop drain itself is short
	var requested atomic.Int64
	hooks := &engine.Hooks{StageRate: func(_, k int, _ time.Time, v int) int {
		if k == 0 {
			v = pp["tick"]
		} else {
			v = 5
		}
		if ctx.Err() == nil {
			requested.Add(int64(v))
		}
		if k == 1 {
			if pp["by_duration"] == 0 {
				go func() { time.Sleep(time.Duration(pp["cancel_ms"]%40) * time.Millisecond); cancel() }()
			}
			go func() { time.Sleep(time.Duration(pp["cancel_ms"]%40+30) * time.Millisecond); close(gate) }()
		}
		return v
	}}
	if pp["by_duration"] == 1 {
		y = strings.Replace(y, "max-duration: "+maxDur, fmt.Sprintf("max-duration: %dms", 60+pp["cancel_ms"]%40), 1)
	}
	r := engine.Execute(ctx, engine.Spec{Mode: "filestages", YAML: y, CompletionMS: 20000}, l, scenario, hooks, nil)
	if r.NewErr != nil {
		o.Inconc("harness: %v", r.NewErr)
		return
	}
	_, _, d0 := resultCounts(r)
	fams, _ := engine.Gather(r.Registry)
	m0 := engine.IterationCounts(fams)["dropped"]
	time.Sleep(500 * time.Millisecond)
	fams, _ = engine.Gather(r.Registry)
	m1 := engine.IterationCounts(fams)["dropped"]
	desc := fmt.Sprintf("file stage rate=%d/20ms stop=%dms byDuration=%v", pp["tick"], pp["cancel_ms"], pp["by_duration"] == 1)
	o.Events = started.Load() + int64(m1)
	if d0 != m0 || m1 != m0 {
		o.Violate("filecancel-late-drops", "the run returned reporting %d dropped (metrics %d); 500 ms later the metrics carry %d: dropped iterations were still being reported after the run had returned (%s)", d0, m0, m1, desc)
		return
	}
	if su, fa, _ := resultCounts(r); int64(su+fa+d0) > requested.Load()+5 || int64(su+fa+d0) < requested.Load()-10 {
		o.Violate("filecancel-conservation", "ticks applied before the stop requested %d iterations (+- one small tick), the run reports %d started and %d dropped (%s)", requested.Load(), su+fa, d0, desc)
		return
	}
	o.AddObs("stress_drops", int64(m1))
	if m1 > 0 {
		o.Sig("filecancel:tick=%d:byDuration=%v:race=%v", pp["tick"], pp["by_duration"] == 1, c.Race)
	}
	o.Sample = map[string]any{"case": desc, "dropped_at_return": d0, "dropped_500ms_later": m1}
}
