package props

import (
	"context"
	"fmt"
	"math/rand/v2"
	"runtime"
	"sort"
	"strings"
	"sync"
	"time"

	"github.com/form3tech-oss/f1/v2/verifharness/core"
	"github.com/form3tech-oss/f1/v2/verifharness/engine"
)

func pick[T any](r *rand.Rand, xs ...T) T { return xs[r.IntN(len(xs))] }

// spin burns CPU for roughly d without sleeping.
func spin(d time.Duration) {
	if d <= 0 {
		return
	}
	t0 := time.Now()
	for time.Since(t0) < d {
		for i := 0; i < 50; i++ {
			_ = i * i
		}
	}
}

// bodyWork performs the per-iteration work pattern.
func bodyWork(pattern string, r uint64) {
	switch pattern {
	case "instant":
	case "spin":
		spin(time.Duration(r%200) * time.Microsecond)
	case "sleep":
		time.Sleep(time.Duration(r%3000) * time.Microsecond)
	case "yield":
		runtime.Gosched()
	}
}

func joinProblems(p []string) string {
	if len(p) > 6 {
		p = append(p[:6], fmt.Sprintf("… and %d more", len(p)-6))
	}
	return strings.Join(p, "; ")
}

// resultCounts returns (success, failed, dropped) of the final result snapshot.
func resultCounts(r *engine.Run) (uint64, uint64, uint64) {
	s := r.Result.Snapshot()
	return s.SuccessfulIterationDurations.Count, s.FailedIterationDurations.Count, s.DroppedIterationCount
}

// waitUntil polls cond every 200µs until it holds or the timeout elapses (a release decision aid,
// never a verdict by itself).
func waitUntil(timeout time.Duration, cond func() bool) bool {
	deadline := time.Now().Add(timeout)
	for {
		if cond() {
			return true
		}
		if time.Now().After(deadline) {
			return cond()
		}
		time.Sleep(200 * time.Microsecond)
	}
}

func ctxWithCancel() (context.Context, context.CancelFunc) {
	return context.WithCancel(context.Background())
}

func sortedStrings(m map[string]int) []string {
	ks := make([]string, 0, len(m))
	for k := range m {
		ks = append(ks, k)
	}
	sort.Strings(ks)
	return ks
}

func init() {
	// thorough tier: half of the cases run with every yield site of f1 perturbed (a yield, a short spin
	// or a sleep of up to 2 ms with probability 2 %). The sites sit between critical sections, so every
	// resulting schedule is one the program can have. Cases that script their own hook schedule
	// install their controller over this one.
	core.BeforeCase = func(c *core.Case) func(o *core.Outcome) {
		if c.Tier != "thorough" {
			return nil
		}
		r := c.Rng("perturb-all")
		if r.IntN(2) == 0 {
			return nil
		}
		hc := engine.NewHookCtl(r.Uint64())
		hc.Perturb("*", 0.02)
		hc.Install()
		return func(o *core.Outcome) {
			hc.Uninstall()
			o.AddObs("cases_with_all_sites_perturbed", 1)
			for site, n := range hc.ReachedCounts() {
				o.AddObs("perturbed-site:"+site, n)
			}
		}
	}
}

// hiccups watches how late this process's own timers fire while a case runs: the returned function stops the watch and
// gives the longest delay seen (a release/inconclusive decision aid for oracles that rest on a few milliseconds).
func hiccups() func() time.Duration {
	stop := make(chan struct{})
	out := make(chan time.Duration, 1)
	go func() {
		var worst time.Duration
		for {
			t0 := time.Now()
			select {
			case <-stop:
				out <- worst
				return
			case <-time.After(time.Millisecond):
			}
			if d := time.Since(t0) - time.Millisecond; d > worst {
				worst = d
			}
		}
	}()
	return func() time.Duration { close(stop); return <-out }
}

// hiccupsUntil is hiccups with a time line: the returned function stops the watch and gives the longest delay seen up to
// the instant `at` of the given clock (what happens once the situation a case waits for has occurred does not count).
func hiccupsUntil(now func() time.Duration) func(at time.Duration) time.Duration {
	type sample struct{ at, late time.Duration }
	stop := make(chan struct{})
	out := make(chan []sample, 1)
	go func() {
		var ss []sample
		for {
			t0 := time.Now()
			select {
			case <-stop:
				out <- ss
				return
			case <-time.After(time.Millisecond):
			}
			if d := time.Since(t0) - time.Millisecond; d > 500*time.Microsecond {
				ss = append(ss, sample{now(), d})
			}
		}
	}()
	var once sync.Once
	var got []sample
	return func(at time.Duration) time.Duration {
		once.Do(func() { close(stop); got = <-out })
		var worst time.Duration
		for _, s := range got {
			if s.at <= at && s.late > worst {
				worst = s.late
			}
		}
		return worst
	}
}
