package props

import (
	"context"
	"fmt"
	"strings"
	"sync"
	"sync/atomic"
	"time"

	"github.com/form3tech-oss/f1/v2/pkg/f1/scenarios"
	f1testing "github.com/form3tech-oss/f1/v2/pkg/f1/testing"
	"github.com/form3tech-oss/f1/v2/verifharness/core"
	"github.com/form3tech-oss/f1/v2/verifharness/engine"
)

// C06 — lifecycle: setup once, iterations, LIFO cleanups exactly once, teardown last.

type c06Params struct {
	Spec          engine.Spec `json:"spec"`
	Ending        string      `json:"ending"` // limit duration cancel-out cancel-in setupfault timeout
	SetupCleanups []int       `json:"setup_cleanups"`
	SetupFault    int         `json:"setup_fault"`
	SetupFaultPos int         `json:"setup_fault_pos"`
	CancelAt      uint64      `json:"cancel_at"`
	Desc          string      `json:"desc"`
}

// cleanup fault kinds
const (
	cfPass = iota
	cfPanic
	cfFailNow
	cfFail
	cfPanicErr
	cfNested // the cleanup registers another cleanup while it runs (the nested one is not judged)
)

var cfNames = []string{"ok", "panic", "FailNow", "Fail", "panic(err)", "registers-another-cleanup"}

func cleanupFault(t *f1testing.T, kind int) {
	switch kind {
	case cfPanic:
		panic("cleanup panic")
	case cfFailNow:
		t.FailNow()
	case cfFail:
		t.Fail()
	case cfPanicErr:
		panic(fmt.Errorf("cleanup error panic"))
	case cfNested:
		t.Cleanup(func() {})
	}
}

type c06BodyPlan struct {
	cleanups []int // fault kind of each cleanup, in registration order
	fault    int   // behaviour kind
	pos      int   // cleanups registered before the fault
}

func c06PlanFor(seed, id uint64) c06BodyPlan {
	r := core.Rng(seed, "c06body", fmt.Sprint(id))
	var p c06BodyPlan
	n := r.IntN(6)
	for i := 0; i < n; i++ {
		k := cfPass
		if r.IntN(3) == 0 {
			k = 1 + r.IntN(5)
		}
		p.cleanups = append(p.cleanups, k)
	}
	if r.IntN(2) == 0 {
		p.fault = 1 + r.IntN(engine.NumBehaviours-1)
	}
	p.pos = r.IntN(n + 1)
	return p
}

func init() {
	core.Register(&core.Property{
		ID: "C06",
		Rule: "whole runs of generated scenario programs: setup registers 0-4 cleanups (each ok / panic / FailNow / Fail / panic(err)) and may fail or panic before, between or after them; every body registers 0-5 cleanups before/after its own failure point (19 behaviours) with faults of their own; endings: limit, duration, cancel from outside, cancel from inside iteration j, cancel from inside setup (with and without a setup fault), setup fault, completion-timeout expiry, setup cleanups slower than the completion timeout, a run longer than its completion timeout whose last iterations finish shortly after the end; all trigger modes. " +
			"The event log is checked offline against the lifecycle order. non-trivial = the run had a faulting cleanup, a faulting body with cleanups, or a setup fault; distinct = distinct (mode, ending, setup-fault kind/pos, #setup cleanups, has-faulting-setup-cleanup) classes",
		Assumptions: []string{"cleanups registered from inside a cleanup are outside the property and are not generated"},
		Gen: func(tier string, seed uint64) []core.Case {
			r := core.Rng(seed, "C06", tier)
			n := 72
			if tier == "thorough" {
				n = 800
			}
			endings := []string{"limit", "limit", "duration", "cancel-out", "cancel-in", "setupfault", "timeout", "cancel-setup", "longrun", "slowteardown"}
			modes := []string{"users", "constant", "staged", "ramp", "gaussian", "custom", "file", "filespan"}
			var cs []core.Case
			for i := 0; i < n; i++ {
				p := c06Params{Ending: endings[i%len(endings)]}
				mode := modes[r.IntN(len(modes))]
				c := pick(r, 1, 2, 4, 8)
				switch mode {
				case "users":
					p.Spec = engine.Spec{Mode: "users", Concurrency: c, MaxDurationMS: 60000}
				case "filespan":
					p.Spec = engine.FileSpanSpec(c, 0)
				case "file":
					y := fmt.Sprintf("scenario: verifScenario\nlimits:\n  max-duration: 60s\n  concurrency: %d\n  max-iterations: 0\n  ignore-dropped: true\ndefault:\n  distribution: none\n  jitter: 0\nstages:\n- duration: 150ms\n  mode: constant\n  rate: %d/10ms\n- duration: 60s\n  mode: users\n", c, c)
					p.Spec = engine.Spec{Mode: "file", YAML: y}
				default:
					p.Spec = engine.RateSpec(mode, c, 5, c)
				}
				p.Spec.IgnoreDropped = true
				p.Spec.Interactive, p.Spec.Verbose = r.IntN(3) == 0, r.IntN(4) == 0
				if mode != "file" && mode != "filespan" {
					// registered through CombineScenarios in a third of the cases (with a passing companion)
					p.Spec.Combine = pick(r, 0, 0, 2)
				}
				ns := r.IntN(5)
				for k := 0; k < ns; k++ {
					f := cfPass
					if r.IntN(4) == 0 {
						f = 1 + r.IntN(5)
					}
					p.SetupCleanups = append(p.SetupCleanups, f)
				}
				p.SetupFaultPos = ns
				if p.Ending == "slowteardown" && len(p.SetupCleanups) < 2 {
					p.SetupCleanups = append(p.SetupCleanups, cfPass, 1+r.IntN(5))
					p.SetupFaultPos = len(p.SetupCleanups)
				}
				switch p.Ending {
				case "limit", "slowteardown":
					if p.Ending == "slowteardown" {
						// every setup cleanup takes 400 ms, the completion timeout (which is about iterations) is 150 ms
						p.Spec.CompletionMS = 150
					}
					N := uint64(c * (4 + r.IntN(8)))
					if mode == "filespan" {
						N = uint64(c * (30 + r.IntN(20)))
					}
					if mode == "file" || mode == "filespan" {
						p.Spec.YAML = strings.Replace(p.Spec.YAML, "max-iterations: 0", fmt.Sprintf("max-iterations: %d", N), 1)
					}
					p.Spec.MaxIterations = N
				case "duration":
					if mode == "file" {
						p.Spec.YAML = strings.Replace(p.Spec.YAML, "max-duration: 60s", "max-duration: 300ms", 1)
					}
					if mode == "filespan" {
						p.Spec.YAML = strings.Replace(p.Spec.YAML, "max-duration: 60s", "max-duration: 700ms", 1)
					}
					p.Spec.MaxDurationMS = 200 + r.IntN(150)
				case "cancel-in":
					p.CancelAt = uint64(1 + r.IntN(3*c+3))
				case "setupfault":
					p.SetupFault = 1 + r.IntN(engine.NumBehaviours-1)
					if r.IntN(4) == 0 {
						// a stopping failure raised through a handle the setup created for a component of its own
						p.SetupFault = pick(r, engine.BOtherFailNow, engine.BOtherRequire)
					}
					if (i/len(endings))%2 == 0 {
						// a setup that reports a failure without stopping (an assert-style check) and hands back its iteration
						// function all the same: a failed setup like any other
						p.SetupFault = pick(r, engine.BFail, engine.BError, engine.BErrorf, engine.BAssert)
					}
					p.SetupFaultPos = r.IntN(ns + 1)
					// (a run that wrongly goes on after its setup failed ends by itself and is judged)
					p.Spec.MaxDurationMS = 1200
					if mode == "file" || mode == "filespan" {
						p.Spec.YAML = strings.Replace(p.Spec.YAML, "max-duration: 60s", "max-duration: 1200ms", 1)
					}
				case "cancel-setup":
					// the run is cancelled while setup is executing (after some of its cleanups were registered);
					// half of these setups also fail
					p.SetupFaultPos = r.IntN(ns + 1)
					if r.IntN(2) == 0 {
						p.SetupFault = 1 + r.IntN(engine.NumBehaviours-1)
					}
				case "longrun":
					// the run lasts longer than its completion timeout; the bodies in flight at the end finish
					// 150 ms later, well inside the timeout, which starts when triggering stops
					p.Spec.CompletionMS = 1400
					p.Spec.MaxDurationMS = 1700
					if mode == "file" || mode == "filespan" {
						p.Spec.YAML = strings.Replace(p.Spec.YAML, "max-duration: 60s", "max-duration: 1700ms", 1)
					}
				case "timeout":
					p.Spec.CompletionMS = 150 + r.IntN(100)
					p.Spec.MaxDurationMS = 150
					if mode == "file" || mode == "filespan" {
						p.Spec.YAML = strings.Replace(p.Spec.YAML, "max-duration: 60s", "max-duration: 150ms", 1)
					}
				}
				fs := []string{}
				for _, f := range p.SetupCleanups {
					fs = append(fs, cfNames[f])
				}
				p.Desc = fmt.Sprintf("mode=%s c=%d ending=%s setupCleanups=[%s] setupFault=%s@%d cancelAt=%d", mode, c, p.Ending, strings.Join(fs, ","), engine.BehaviourNames[p.SetupFault], p.SetupFaultPos, p.CancelAt)
				cse := core.MkCase("C06", "run", i, seed, p)
				cse.Race = true
				cse.Procs = pick(r, 1, 2, 16)
				cse.TimeoutMS = 60000
				cs = append(cs, cse)
			}
			// a plan cut by its max-duration shortly after a stage change: iterations of the stage before are still
			// running when triggering ends (they take 170 ms), and the run's end waits for them too
			nsp := 6
			if tier == "thorough" {
				nsp = 40
			}
			for i := 0; i < nsp; i++ {
				c := pick(r, 4, 8, 8, 16)
				p := c06Params{Ending: "duration", Spec: engine.FileSpanSpec(c, 0)}
				cut := []int{320, 470, 620, 640, 660}[r.IntN(5)]
				p.Spec.YAML = strings.Replace(p.Spec.YAML, "max-duration: 60s", fmt.Sprintf("max-duration: %dms", cut), 1)
				p.Spec.MaxDurationMS = cut
				p.SetupCleanups = []int{cfPass, cfPass}
				p.SetupFaultPos = 2
				p.Desc = fmt.Sprintf("mode=filespan c=%d ending=duration cut=%dms (just after a stage change) setupCleanups=[ok,ok]", c, cut)
				cse := core.MkCase("C06", "run", 5000+i, seed, p)
				cse.Race = i%2 == 0
				cse.Procs = pick(r, 2, 16)
				cse.TimeoutMS = 60000
				cs = append(cs, cse)
			}
			return cs
		},
		Kinds:  map[string]core.RunFunc{"run": c06Run},
		Floors: map[string]int64{"bodies_with_cleanups": 500, "faulting_cleanups_run": 100, "setup_fault_runs": 5, "timeout_runs": 5},
	})
}

func c06Run(c *core.Case, o *core.Outcome) {
	var p c06Params
	c.Params(&p)
	// a fifth of the cases run the same registered scenario object twice in a row (one f1 instance
	// executed twice): the lifecycle must be complete in every run
	reps := 1
	if c.Rng("reps").IntN(5) == 0 && p.Ending != "timeout" {
		reps = 2
	}
	reg := scenarios.New()
	base := p.Desc
	for rep := 1; rep <= reps && o.Verdict == core.Held; rep++ {
		p.Desc = fmt.Sprintf("%s run %d/%d of the same registered scenario", base, rep, reps)
		c06Once(c, o, p, reg)
	}
}

func c06Once(c *core.Case, o *core.Outcome, p c06Params, reg *scenarios.Scenarios) {
	l := engine.NewLog()
	ctx, cancel := context.WithCancel(context.Background())
	defer cancel()
	bodySeed := c.Rng("bodies").Uint64()
	gate := make(chan struct{})
	var gateOnce sync.Once
	release := func() { gateOnce.Do(func() { close(gate) }) }
	defer release()
	var inflight atomic.Int64
	var runStart time.Time
	scenario := func(t *f1testing.T) f1testing.RunFn {
		runStart = time.Now()
		l.Add("setup.start", engine.HandleID(t), "", 0, "")
		defer l.Add("setup.end", engine.HandleID(t), "", 0, "")
		reg := func(i int) {
			kind := p.SetupCleanups[i]
			l.Add("setup.reg", engine.HandleID(t), "", int64(i), "")
			t.Cleanup(func() {
				l.Add("setup.cleanup", engine.HandleID(t), "", int64(i), cfNames[kind])
				if p.Ending == "slowteardown" {
					time.Sleep(400 * time.Millisecond)
				}
				cleanupFault(t, kind)
			})
		}
		for i := 0; i < p.SetupFaultPos && i < len(p.SetupCleanups); i++ {
			reg(i)
		}
		if p.Ending == "cancel-setup" {
			cancel()
		}
		if p.SetupFault != engine.BPass {
			if p.SetupFault == engine.BOtherFailNow || p.SetupFault == engine.BOtherRequire {
				aux, _ := f1testing.NewTWithOptions("component")
				engine.OtherHandle.Store(aux)
				defer engine.OtherHandle.Store(nil)
			}
			engine.Behave(t, p.SetupFault)
		}
		for i := p.SetupFaultPos; i < len(p.SetupCleanups); i++ {
			reg(i)
		}
		return func(t *f1testing.T) {
			h := engine.HandleID(t)
			id := t.Iteration
			inflight.Add(1)
			l.Add("body.start", h, id, 0, "")
			defer func() {
				inflight.Add(-1)
				l.Add("body.end", h, id, 0, "")
			}()
			n := engine.IDOf(t)
			plan := c06PlanFor(bodySeed, n)
			regc := func(i int) {
				kind := plan.cleanups[i]
				l.Add("body.reg", h, id, int64(i), "")
				t.Cleanup(func() {
					l.Add("cleanup", h, id, int64(i), cfNames[kind])
					cleanupFault(t, kind)
				})
			}
			for i := 0; i < plan.pos; i++ {
				regc(i)
			}
			if p.Ending == "timeout" || (p.Ending == "longrun" && n%3 == 0) {
				<-gate
			}
			if strings.Contains(p.Desc, "cut=") {
				// iterations begun before the last stage change are the long ones: those of the final stage are over
				// long before them
				if change := time.Duration(p.Spec.MaxDurationMS/150*150) * time.Millisecond; time.Since(runStart) < change && n%3 == 0 {
					time.Sleep(400 * time.Millisecond)
				} else {
					time.Sleep(2 * time.Millisecond)
				}
			} else if strings.Contains(p.Desc, "mode=filespan") {
				engine.SpanSleep(n)
			}
			if p.CancelAt != 0 && n == p.CancelAt {
				cancel()
			}
			if plan.fault != engine.BPass {
				engine.Behave(t, plan.fault)
			}
			for i := plan.pos; i < len(plan.cleanups); i++ {
				regc(i)
			}
		}
	}
	if p.Ending == "longrun" {
		go func() { time.Sleep(1850 * time.Millisecond); release() }()
	}
	done := make(chan *engine.Run, 1)
	go func() { done <- engine.Execute(ctx, p.Spec, l, scenario, &engine.Hooks{Registry: reg}, nil) }()
	var r *engine.Run
	switch p.Ending {
	case "cancel-out":
		select {
		case r = <-done:
		case <-time.After(time.Duration(60+c.Rng("cancel").IntN(200)) * time.Millisecond):
			cancel()
			r = <-done
		}
	default:
		r = <-done
	}
	if r.NewErr != nil {
		o.Inconc("harness: cannot build run: %v", r.NewErr)
		return
	}
	release()
	if p.Ending == "slowteardown" {
		// anything the run left running shows up in the log within this time
		time.Sleep(time.Duration(400*len(p.SetupCleanups)+200) * time.Millisecond)
	}
	// let gated bodies finish so that they do not leak into later cases
	waitUntil(5*time.Second, func() bool { return inflight.Load() == 0 })
	evs := l.Events()
	o.Events += int64(len(evs))
	viol := func(key, format string, a ...any) {
		o.Violate(key+":"+p.Desc, format+" ("+p.Desc+")", a...)
	}

	var setupStart, setupEnd, doReturn, firstSetupCleanup, lastBodyEnd, lastCleanup int64
	setupStarts := 0
	var setupRegs, setupCleanupsSeen []int64
	type hstate struct {
		cur     string
		inBody  bool
		regs    []int64
		expect  []int64
		lastSeq int64
		bodies  int
	}
	handles := map[string]*hstate{}
	bodies, bodiesWithCleanups, faultingCleanups := 0, 0, 0
	for _, e := range evs {
		switch e.Kind {
		case "setup.start":
			setupStarts++
			setupStart = e.Seq
		case "setup.end":
			setupEnd = e.Seq
		case "setup.reg":
			setupRegs = append(setupRegs, e.V)
		case "setup.cleanup":
			if firstSetupCleanup == 0 {
				firstSetupCleanup = e.Seq
			}
			if doReturn != 0 {
				viol("setup-cleanup-after-return", "setup cleanup %d ran after the run returned", e.V)
				return
			}
			setupCleanupsSeen = append(setupCleanupsSeen, e.V)
			if e.S != "ok" {
				faultingCleanups++
			}
		case "do.return":
			doReturn = e.Seq
		case "body.start":
			bodies++
			if setupEnd == 0 || e.Seq < setupEnd {
				viol("body-before-setup", "iteration %s started before setup completed", e.ID)
				return
			}
			hs := handles[e.H]
			if hs == nil {
				hs = &hstate{}
				handles[e.H] = hs
			}
			if hs.inBody {
				viol("handle-overlap", "iteration %s started on handle %s while iteration %s is still in its body", e.ID, e.H, hs.cur)
				return
			}
			if len(hs.expect) > 0 {
				viol("cleanup-missing", "iteration %s started on handle %s although cleanups %v of iteration %s have not run", e.ID, e.H, hs.expect, hs.cur)
				return
			}
			hs.cur, hs.inBody, hs.regs = e.ID, true, nil
			hs.bodies++
		case "body.reg":
			hs := handles[e.H]
			if hs != nil && hs.cur == e.ID {
				hs.regs = append(hs.regs, e.V)
			}
		case "body.end":
			lastBodyEnd = e.Seq
			hs := handles[e.H]
			if hs == nil || hs.cur != e.ID {
				viol("harness-log", "body.end without start for %s", e.ID)
				return
			}
			hs.inBody = false
			hs.expect = nil
			for i := len(hs.regs) - 1; i >= 0; i-- {
				hs.expect = append(hs.expect, hs.regs[i])
			}
			if len(hs.regs) > 0 {
				bodiesWithCleanups++
			}
		case "cleanup":
			lastCleanup = e.Seq
			hs := handles[e.H]
			if hs == nil {
				viol("cleanup-unknown-handle", "cleanup %d of iteration %s ran on an unknown handle", e.V, e.ID)
				return
			}
			if hs.inBody {
				viol("cleanup-during-body", "cleanup %d of iteration %s ran while iteration %s was still in its body", e.V, e.ID, hs.cur)
				return
			}
			if e.ID != hs.cur {
				viol("cleanup-stale", "cleanup %d registered by iteration %s ran after iteration %s on the same handle (stack not reset)", e.V, e.ID, hs.cur)
				return
			}
			if len(hs.expect) == 0 || hs.expect[0] != e.V {
				viol("cleanup-order", "iteration %s: cleanup %d ran, expected order (last registered first) was %v", e.ID, e.V, hs.expect)
				return
			}
			hs.expect = hs.expect[1:]
			if e.S != "ok" {
				faultingCleanups++
			}
		}
	}
	if setupStarts != 1 {
		viol("setup-count", "setup ran %d times", setupStarts)
		return
	}
	_ = setupStart
	setupFailed := p.SetupFault != engine.BPass
	if setupFailed {
		if bodies != 0 {
			viol("body-after-failed-setup", "setup failed (%s) but %d iterations ran", engine.BehaviourNames[p.SetupFault], bodies)
			return
		}
		if r.Result == nil || !r.Result.Failed() || r.Result.Error() == nil {
			viol("failed-setup-not-reported", "setup failed (%s) but the run is not reported failed", engine.BehaviourNames[p.SetupFault])
			return
		}
		o.AddObs("setup_fault_runs", 1)
	}
	// setup cleanups: exactly once each, reverse registration order, before do.return
	var want []int64
	for i := len(setupRegs) - 1; i >= 0; i-- {
		want = append(want, setupRegs[i])
	}
	if fmt.Sprint(want) != fmt.Sprint(setupCleanupsSeen) {
		viol("setup-cleanups", "setup registered cleanups %v; they ran as %v, expected %v (each once, reverse order, before the run returns)", setupRegs, setupCleanupsSeen, want)
		return
	}
	if p.Ending != "timeout" {
		for h, hs := range handles {
			if hs.inBody || len(hs.expect) > 0 {
				viol("unfinished-at-return", "run returned without timeout but handle %s iteration %s has inBody=%v pending cleanups %v", h, hs.cur, hs.inBody, hs.expect)
				return
			}
		}
		if firstSetupCleanup != 0 && (lastBodyEnd > firstSetupCleanup || lastCleanup > firstSetupCleanup) {
			viol("teardown-early", "setup cleanups started (seq %d) before the last iteration finished (last body end seq %d, last iteration cleanup seq %d)", firstSetupCleanup, lastBodyEnd, lastCleanup)
			return
		}
		if lastBodyEnd > doReturn || lastCleanup > doReturn {
			viol("iteration-after-return", "an iteration or its cleanup finished after the run returned without the completion timeout expiring")
			return
		}
	} else {
		o.AddObs("timeout_runs", 1)
	}
	anyFaultySetupCleanup := false
	for i, f := range p.SetupCleanups {
		registered := false
		for _, rg := range setupRegs {
			if int(rg) == i {
				registered = true
			}
		}
		if registered && f != cfPass && f != cfNested {
			anyFaultySetupCleanup = true
		}
	}
	if anyFaultySetupCleanup {
		if !r.Result.Failed() {
			viol("teardown-failure-not-reported", "a setup cleanup failed/panicked but the run is not reported failed")
			return
		}
		if err := r.Result.Error(); err == nil || !strings.Contains(err.Error(), "teardown") {
			viol("teardown-error-missing", "a setup cleanup failed/panicked but the result error is %v", err)
			return
		}
	} else if !setupFailed && r.Result.Error() != nil {
		viol("spurious-error", "no setup or teardown fault was planned but the result carries error %v", r.Result.Error())
		return
	}
	o.AddObs("bodies", int64(bodies))
	o.AddObs("bodies_with_cleanups", int64(bodiesWithCleanups))
	o.AddObs("faulting_cleanups_run", int64(faultingCleanups))
	if faultingCleanups > 0 || setupFailed || bodiesWithCleanups > 0 {
		o.Sig("mode=%s:end=%s:setupfault=%s@%d/%d:faultySetupCleanup=%v", p.Spec.Mode, p.Ending, engine.BehaviourNames[p.SetupFault], p.SetupFaultPos, len(p.SetupCleanups), anyFaultySetupCleanup)
	}
	o.Sample = map[string]any{"case": p.Desc, "events": len(evs), "bodies": bodies, "bodies_with_cleanups": bodiesWithCleanups, "faulting_cleanups": faultingCleanups, "handles": len(handles)}
}
