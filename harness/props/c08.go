package props

import (
	"context"
	"errors"
	"fmt"
	"log/slog"
	"os"
	"path/filepath"
	"strings"
	"sync"
	"sync/atomic"
	"syscall"
	"time"

	"github.com/form3tech-oss/f1/v2/internal/metrics"
	"github.com/form3tech-oss/f1/v2/internal/options"
	"github.com/form3tech-oss/f1/v2/internal/progress"
	"github.com/form3tech-oss/f1/v2/internal/run"
	"github.com/form3tech-oss/f1/v2/internal/run/views"
	"github.com/form3tech-oss/f1/v2/pkg/f1"
	f1testing "github.com/form3tech-oss/f1/v2/pkg/f1/testing"
	"github.com/form3tech-oss/f1/v2/verifharness/core"
	"github.com/form3tech-oss/f1/v2/verifharness/engine"
)

// C08 — pass/fail verdict and exit status follow the documented failure tolerances.

type c08GridParams struct {
	MaxF   uint64 `json:"max_f"`
	Ignore bool   `json:"ignore"`
	Errs   int    `json:"errs"`
}

type c08SeededParams struct {
	N int `json:"n"`
}

type c08CLIParams struct {
	Mode    string `json:"mode"` // users | file | drops | setupfail | teardownfail
	N       int    `json:"n"`
	Fail    int    `json:"fail"`
	MaxF    int    `json:"max_f"`
	MaxR    int    `json:"max_r"`
	Ignore  bool   `json:"ignore"`
	Conc    int    `json:"conc"`
	ViaFile bool   `json:"via_file"`
	Profile string `json:"profile"` // "" | cpuprofile | memprofile
	// FailVia: the way failing iterations (and a failing setup) fail (0 = t.Fail / t.FailNow)
	FailVia int `json:"fail_via,omitempty"`
	// Quiet: the run gets a logger that is disabled for every level (f1.WithLogger) and --verbose
	Quiet bool `json:"quiet,omitempty"`
	// Env: "" | logdir (LOG_FILE_PATH names a directory: the log file cannot be created) |
	// gateway503 (PROMETHEUS_PUSH_GATEWAY names a gateway that answers 503 to every push)
	Env string `json:"env,omitempty"`
	// IgnoreForm: how the boolean flag is spelt on the command line: "" (bare when on, absent when off) | "=" (always
	// spelt --ignore-dropped=<value>)
	IgnoreForm string `json:"ignore_form,omitempty"`
}

type c08RunVerdictParams struct {
	Mode   string `json:"mode"`
	Ending string `json:"ending"`
	Fail   int    `json:"fail"` // iterations 1..Fail fail (and finish at once)
	Hang   bool   `json:"hang"` // the next iteration never finishes: the run ends through the completion timeout
	MaxF   int    `json:"max_f"`
	MaxR   int    `json:"max_r"`
	Ignore bool   `json:"ignore"`
	Conc   int    `json:"conc"`
	// Teardown: behaviour of a scenario-level cleanup (0 = passes); a failing one fails the run
	Teardown int `json:"teardown,omitempty"`
	// SetupFault: behaviour that makes the setup fail (0 = passes); CancelInSetup: the run is cancelled from inside setup first
	SetupFault    int  `json:"setup_fault,omitempty"`
	CancelInSetup bool `json:"cancel_in_setup,omitempty"`
	// SetupMark: the first body reports a non-fatal error through the handle captured in setup (fails nothing)
	SetupMark bool `json:"setup_mark,omitempty"`
	// FarLimit (ending duration): max-iterations 1000 next to the tolerances; the run ends by its duration long before
	FarLimit bool `json:"far_limit,omitempty"`
}

type c08DropVerdictParams struct {
	Mode   string `json:"mode"`
	Ending string `json:"ending"` // cancel (from outside) | duration | cancel-in-body
	Req    int    `json:"req"`    // requests of the first (and only) tick before the run is stopped
	Conc   int    `json:"conc"`
	Ignore bool   `json:"ignore"`
	MaxF   int    `json:"max_f"`
	MaxR   int    `json:"max_r"`
}

// c08DropVerdict: the first tick asks for more iterations than there are workers, the workers stay busy, and the run is
// stopped (interrupted from outside, from inside an iteration, or by its max-duration) before the next tick. Every request
// that was never executed is work the run dropped: it passes only with ignore-dropped (no iteration fails here).
func c08DropVerdict(c *core.Case, o *core.Outcome) {
	var p c08DropVerdictParams
	c.Params(&p)
	l := engine.NewLog()
	ctx, cancel := context.WithCancel(context.Background())
	defer cancel()
	gate := make(chan struct{})
	var started atomic.Int64
	inBody := make(chan struct{}, 64)
	scenario := func(*f1testing.T) f1testing.RunFn {
		return func(t *f1testing.T) {
			n := started.Add(1)
			inBody <- struct{}{}
			if p.Ending == "cancel-in-body" && n == int64(p.Conc) {
				cancel()
			}
			<-gate
		}
	}
	// one tick at the start, the next one a minute later
	spec := engine.RateSpec(p.Mode, p.Req+p.Conc, 60000, p.Conc)
	spec.CompletionMS = 3000
	spec.MaxFailures, spec.MaxFailuresRate, spec.IgnoreDropped = uint64(p.MaxF), p.MaxR, p.Ignore
	spec.MaxDurationMS = 60000
	if p.Ending == "duration" {
		spec.MaxDurationMS = 400
	}
	var evals atomic.Int64
	hooks := &engine.Hooks{OnRate: func(k int, _ time.Time, v int) int { evals.Add(1); return v }}
	done := make(chan *engine.Run, 1)
	go func() { done <- engine.Execute(ctx, spec, l, scenario, hooks, nil) }()
	// all workers busy
	for i := 0; i < p.Conc; i++ {
		select {
		case <-inBody:
		case <-time.After(20 * time.Second):
			close(gate)
			<-done
			o.Inconc("the %d workers did not all start an iteration within 20 s", p.Conc)
			return
		}
	}
	switch p.Ending {
	case "cancel":
		time.Sleep(30 * time.Millisecond)
		cancel()
		time.Sleep(150 * time.Millisecond)
	case "cancel-in-body":
		time.Sleep(150 * time.Millisecond)
	case "duration":
		time.Sleep(550 * time.Millisecond)
	}
	close(gate)
	r := <-done
	if r.NewErr != nil {
		o.Inconc("harness: %v", r.NewErr)
		return
	}
	desc := fmt.Sprintf("%+v", p)
	if evals.Load() != 1 {
		o.Inconc("%d rate evaluations instead of the one planned (%s)", evals.Load(), desc)
		return
	}
	su, fa, dr := resultCounts(r)
	requested := uint64(p.Req + p.Conc)
	o.Events = started.Load() + int64(l.Len())
	o.AddObs("evaluations", 1)
	if su+fa > requested || fa != 0 {
		o.Violate("dropverdict-counts:"+desc, "one tick asked for %d iterations; the result reports %d successful, %d failed (%s)", requested, su, fa, desc)
		return
	}
	never := requested - uint64(started.Load())
	want := !p.Ignore && never > 0
	if r.Result.Failed() != want {
		o.Violate("dropverdict:"+desc, "one tick asked for %d iterations, %d were executed (all passed), %d never were because the run was stopped (%s) while they queued; ignore-dropped=%v: the run must %s, Failed()=%v (result: %d successful, %d failed, %d dropped; error %v) (%s)",
			requested, started.Load(), never, p.Ending, p.Ignore, map[bool]string{true: "fail", false: "pass"}[want], r.Result.Failed(), su, fa, dr, r.Result.Error(), desc)
		return
	}
	if never > 0 {
		o.AddObs("decided_by_tolerance", 1)
		o.Sig("dropverdict:mode=%s:end=%s:ignore=%v:conc=%d", p.Mode, p.Ending, p.Ignore, p.Conc)
	}
	o.Sample = map[string]any{"case": desc, "result": []uint64{su, fa, dr}, "never_executed": never, "failed_verdict": r.Result.Failed()}
}

// c08RunVerdict: the verdict of a real run - also one that ends through the completion timeout with an
// iteration still hanging - must follow the tolerances applied to the iterations that did complete.
func c08RunVerdict(c *core.Case, o *core.Outcome) {
	var p c08RunVerdictParams
	c.Params(&p)
	l := engine.NewLog()
	ctx, cancel := context.WithCancel(context.Background())
	defer cancel()
	gate := make(chan struct{})
	defer close(gate)
	var started, failedDone, passedDone atomic.Int64
	total := p.Fail + 3
	scenario := func(setupT *f1testing.T) f1testing.RunFn {
		if p.Teardown != engine.BPass {
			setupT.Cleanup(func() { engine.Behave(setupT, p.Teardown) })
		}
		if p.CancelInSetup {
			cancel()
		}
		if p.SetupFault != engine.BPass {
			engine.Behave(setupT, p.SetupFault)
		}
		return func(t *f1testing.T) {
			n := int(started.Add(1))
			if p.SetupMark && n == 1 {
				setupT.Errorf("reported through the handle captured in setup")
			}
			switch {
			case n <= p.Fail:
				t.Fail()
				failedDone.Add(1)
			case n == p.Fail+1 && p.Hang:
				<-gate
			case n <= total:
				passedDone.Add(1)
			default:
				// keep later iterations out of the picture: they wait until the run is over
				<-gate
			}
		}
	}
	var spec engine.Spec
	switch p.Mode {
	case "users":
		spec = engine.Spec{Mode: "users", Concurrency: p.Conc, MaxDurationMS: 60000}
	case "constant":
		spec = engine.RateSpec("constant", 2, 10, p.Conc)
	default:
		spec = engine.RateSpec("custom", 2, 10, p.Conc)
	}
	spec.CompletionMS = 250
	spec.MaxFailures, spec.MaxFailuresRate, spec.IgnoreDropped = uint64(p.MaxF), p.MaxR, true
	switch p.Ending {
	case "duration":
		spec.MaxDurationMS = 300
		if p.FarLimit {
			// a limit the run never gets near: the tolerances still apply to the iterations that did run
			spec.MaxIterations = 1000
		}
	case "limit":
		spec.MaxIterations = uint64(total)
		spec.MaxDurationMS = 2000
	case "cancel":
		go func() { time.Sleep(300 * time.Millisecond); cancel() }()
	}
	r := engine.Execute(ctx, spec, l, scenario, nil, nil)
	if r.NewErr != nil {
		o.Inconc("harness: %v", r.NewErr)
		return
	}
	desc := fmt.Sprintf("%+v", p)
	if p.SetupFault != engine.BPass {
		if r.Result == nil || !r.Result.Failed() || r.Result.Error() == nil || started.Load() != 0 {
			o.Violate("runverdict-setupfail:"+desc, "setup failed (%s, cancelled from inside setup first: %v): Failed()=%v error=%v, %d iterations ran; expected a failed run with an error and no iteration (%s)", engine.BehaviourNames[p.SetupFault], p.CancelInSetup, r.Result != nil && r.Result.Failed(), r.Result.Error(), started.Load(), desc)
			return
		}
		o.AddObs("evaluations", 1)
		o.Sig("runverdict:setupfault:cancel=%v", p.CancelInSetup)
		return
	}
	if int(failedDone.Load()) != p.Fail {
		o.Inconc("only %d of %d failing iterations ran (%s)", failedDone.Load(), p.Fail, desc)
		return
	}
	F, P := uint64(failedDone.Load()), uint64(passedDone.Load())
	su, fa, dr := resultCounts(r)
	o.Events = started.Load() + int64(l.Len())
	o.AddObs("evaluations", 1)
	// every failing iteration finished long before the run ended: the result must know them
	if fa != F {
		o.Violate("runverdict-counts:"+desc, "%d iterations failed and finished long before the run ended, the final result reports %d failed (%d successful, %d dropped) (%s)", F, fa, su, dr, desc)
		return
	}
	// the other counts may include iterations released at the very end; the verdict is judged on the result's own counts
	nErrs := 0
	if p.Teardown != engine.BPass {
		nErrs = 1
	}
	want := c08Reference(su, fa, dr, uint64(p.MaxF), p.MaxR, true, nErrs)
	if r.Result.Failed() != want {
		o.Violate("runverdict:"+desc, "Failed()=%v for a run with %d successful / %d failed / %d dropped and teardown %s, the documented rule gives %v (error reported: %v) (%s)", r.Result.Failed(), su, fa, dr, engine.BehaviourNames[p.Teardown], want, r.Result.Error(), desc)
		return
	}
	if nErrs > 0 && r.Result.Error() == nil {
		o.Violate("runverdict-teardown-error:"+desc, "the scenario's teardown failed (%s) but the result carries no error (%s)", engine.BehaviourNames[p.Teardown], desc)
		return
	}
	_ = P
	o.AddObs("decided_by_tolerance", 1)
	o.Sig("runverdict:mode=%s:end=%s:hang=%v:fail>0=%v:maxF=%d:maxR=%d:teardownfails=%v", p.Mode, p.Ending, p.Hang, p.Fail > 0, p.MaxF, p.MaxR, nErrs > 0)
	o.Sample = map[string]any{"case": desc, "result": []uint64{su, fa, dr}, "failed_verdict": r.Result.Failed()}
}

// c08Reference is written from the property text, not from the code.
func c08Reference(p, f, d uint64, maxF uint64, maxR int, ignoreDropped bool, nErrs int) bool {
	if nErrs > 0 {
		return true
	}
	if !ignoreDropped && d > 0 {
		return true
	}
	if maxF == 0 && maxR == 0 {
		return f > 0
	}
	if maxF > 0 && f > maxF {
		return true
	}
	total := p + f + d
	if maxR > 0 && total > 0 {
		// failed share strictly greater than maxR percent: 100*f > maxR*total (exact, 128-bit safe here)
		return mulGT(100, f, uint64(maxR), total)
	}
	return false
}

func mulGT(a, b, c, d uint64) bool { // a*b > c*d without overflow
	hi1, lo1 := mul64(a, b)
	hi2, lo2 := mul64(c, d)
	if hi1 != hi2 {
		return hi1 > hi2
	}
	return lo1 > lo2
}

func mul64(x, y uint64) (hi, lo uint64) {
	const mask32 = 1<<32 - 1
	x0, x1 := x&mask32, x>>32
	y0, y1 := y&mask32, y>>32
	w0 := x0 * y0
	t := x1*y0 + w0>>32
	w1 := t & mask32
	w2 := t >> 32
	w1 += x0 * y1
	hi = x1*y1 + w2 + w1>>32
	lo = x * y
	return
}

var c08Rates = []int{0, 1, 5, 33, 50, 99, 100}
var c08MaxFs = []uint64{0, 1, 2, 5}

func init() {
	core.Register(&core.Property{
		ID: "C08",
		Rule: "grid: every (P,F,D) in [0..6]^3 x max-failures {0,1,2,5} x max-failures-rate {0,1,5,33,50,99,100} x ignore-dropped x error set {none,setup,teardown,both} on the real Result (exhaustive for that grid); " +
			"seeded: large triples placed at 100*F - rate*total in {-1,0,+1} and up to 1e9; cli: real f1 CLI runs with planned failures. non-trivial = the verdict is decided by a tolerance clause (not by errors alone); distinct = distinct (clause deciding, tolerance options, at-threshold?) classes, plus distinct CLI configurations",
		Assumptions: []string{"tolerances are non-negative; denominator of the failed share = successful + failed + dropped"},
		Exhaustive:  func(string) bool { return false },
		Gen: func(tier string, seed uint64) []core.Case {
			var cs []core.Case
			i := 0
			for _, mf := range c08MaxFs {
				for _, ig := range []bool{false, true} {
					for e := 0; e < 4; e++ {
						cs = append(cs, core.MkCase("C08", "grid", i, seed, c08GridParams{MaxF: mf, Ignore: ig, Errs: e}))
						i++
					}
				}
			}
			ns := 8
			per := 4000
			if tier == "thorough" {
				ns, per = 64, 20000
			}
			for k := 0; k < ns; k++ {
				cs = append(cs, core.MkCase("C08", "seeded", k, seed, c08SeededParams{N: per}))
			}
			// CLI runs: each in its own child (global metrics singleton, os.Args, env)
			r := core.Rng(seed, "C08", "cli", tier)
			ncli := 24
			if tier == "thorough" {
				ncli = 160
			}
			for k := 0; k < ncli; k++ {
				p := c08CLIParams{Conc: 1 + r.IntN(4)}
				switch k % 8 {
				case 6:
					p.Mode = "setupfail"
					p.N = 5
				case 7:
					p.Mode = "teardownfail"
					p.N = 5
					p.Conc = k / 8 % 7 // selects the way the scenario-level cleanup fails
				case 5:
					p.Mode = "drops"
					p.Ignore = r.IntN(2) == 0
					p.N = 3
				default:
					p.Mode = "users"
					p.ViaFile = k%8 == 4
					p.N = []int{1, 3, 17, 20, 100, 101, 200}[r.IntN(7)]
					p.MaxF = []int{0, 0, 1, 2, 5}[r.IntN(5)]
					p.MaxR = []int{0, 0, 1, 5, 33, 50, 99, 100}[r.IntN(8)]
					// failures near the thresholds
					cands := []int{0, 1, p.MaxF, p.MaxF + 1, p.N * p.MaxR / 100, p.N*p.MaxR/100 + 1, p.N}
					p.Fail = cands[r.IntN(len(cands))]
					if p.Fail > p.N {
						p.Fail = p.N
					}
					p.Ignore = r.IntN(2) == 0
				}
				if k%3 == 1 {
					p.Profile = pick(r, "cpuprofile", "memprofile")
				}
				if (p.Mode == "users" && !p.ViaFile) || p.Mode == "setupfail" {
					// the verdict counts failures however they were reported, and whatever the logger shows
					p.FailVia = pick(r, 0, engine.BErrorf, engine.BAssert, engine.BError, engine.BFatalf, engine.BRequire, engine.BPanicString, engine.BOtherFailNow, engine.BOtherRequire)
					p.Quiet = r.IntN(2) == 0
				}
				c := core.MkCase("C08", "cli", k, seed, p)
				c.Solo = true
				c.TimeoutMS = 60000
				cs = append(cs, c)
			}
			// the boolean flag spelt with a value, both ways, on runs that drop; rate tolerances at and beyond 100 percent
			// with failing iterations and no max-failures
			for i := 0; i < 6; i++ {
				p := c08CLIParams{Mode: "drops", N: 3, Conc: 1, Ignore: i%2 == 0, IgnoreForm: "="}
				if i >= 2 {
					n := pick(r, 3, 10, 17)
					p = c08CLIParams{Mode: "users", N: n, Conc: 1 + r.IntN(3), MaxR: []int{100, 150, 100, 1000}[i-2], Fail: []int{1, n, n / 2, n}[i-2], IgnoreForm: pick(r, "", "=")}
				}
				c := core.MkCase("C08", "cli", 900+i, seed, p)
				c.Solo = true
				c.TimeoutMS = 60000
				cs = append(cs, c)
			}
			// a failing run interrupted by a real SIGINT: still a failed run
			{
				c := core.MkCase("C08", "cli", 940, seed, c08CLIParams{Mode: "signal", N: 10, Conc: 2})
				c.Solo = true
				c.TimeoutMS = 60000
				cs = append(cs, c)
			}
			// an iteration that outlives the completion timeout (10 s on the command line) and fails while the scenario is
			// being torn down: whatever the run makes of it, the exit status says what the run's own summary says
			for i := 0; i < map[string]int{"quick": 1, "thorough": 3}[tier]; i++ {
				c := core.MkCase("C08", "cli", 945+i, seed, c08CLIParams{Mode: "lateoutcome", Conc: 1 + i, Quiet: false})
				c.Solo = true
				c.TimeoutMS = 120000
				cs = append(cs, c)
			}
			// consecutive command lines on one f1 instance
			for i := 0; i < 3; i++ {
				c := core.MkCase("C08", "cli", 970+i, seed, c08CLIParams{Mode: "tworuns", Conc: i})
				c.Solo = true
				c.TimeoutMS = 60000
				cs = append(cs, c)
			}
			// surroundings that do not work (log file cannot be created, push gateway refuses): the verdict is about
			// the iterations, setup and teardown only
			for i, env := range []string{"logdir", "gateway503", "logdir", "gateway503"} {
				p := c08CLIParams{Mode: "users", N: 20, Fail: []int{0, 0, 3, 1}[i], MaxF: []int{0, 0, 2, 5}[i], Conc: 2, Env: env}
				c := core.MkCase("C08", "cli", 950+i, seed, p)
				c.Solo = true
				c.TimeoutMS = 60000
				cs = append(cs, c)
			}
			// failures that are reported through the logging APIs, into a logger that shows nothing
			for i, via := range []int{engine.BErrorf, engine.BAssert, engine.BError, engine.BFatalf, engine.BOtherFailNow, engine.BOtherRequire} {
				for j, mode := range []string{"users", "setupfail"} {
					if (tier == "quick" && i >= 2 && j == 1) || (i >= 4 && j == 1) {
						continue
					}
					p := c08CLIParams{Mode: mode, N: 20, Fail: 3 + i, MaxF: pick(r, 0, 2), Conc: 2, FailVia: via, Quiet: true}
					c := core.MkCase("C08", "cli", 920+2*i+j, seed, p)
					c.Solo = true
					c.TimeoutMS = 60000
					cs = append(cs, c)
				}
			}
			nrv := 10
			if tier == "thorough" {
				nrv = 80
			}
			for k := 0; k < nrv; k++ {
				p := c08RunVerdictParams{Mode: pick(r, "users", "constant", "custom"), Ending: pick(r, "duration", "limit", "cancel"), Fail: r.IntN(4), Hang: k%2 == 0,
					MaxF: pick(r, 0, 0, 1, 2), MaxR: pick(r, 0, 0, 30, 60), Ignore: r.IntN(2) == 0, Conc: pick(r, 2, 4)}
				if k%5 == 4 {
					// a setup that fails - also when the run is cancelled from inside it first
					p.SetupFault = pick(r, engine.BFail, engine.BFailNow, engine.BErrorf, engine.BPanicString)
					p.CancelInSetup = (k/5)%2 == 0
				}
				if k%3 == 2 {
					// (not together with an iteration that never finishes: the run's teardown would then write the
					// setup handle's state without any ordering against that worker's earlier use of the handle - a
					// race of the scenario program's making, not a verdict matter)
					p.SetupMark = r.IntN(2) == 0 && !p.Hang
					// an otherwise tolerated (or clean) run whose scenario-level cleanup fails
					p.Teardown = pick(r, engine.BFail, engine.BFailNow, engine.BErrorf, engine.BPanicString, engine.BRequire)
					if r.IntN(2) == 0 {
						p.Fail = 0
					}
				}
				p.FarLimit = k%2 == 1
				c := core.MkCase("C08", "runverdict", k, seed, p)
				c.Race = k%2 == 0
				c.TimeoutMS = 60000
				cs = append(cs, c)
			}
			// a rate tolerance next to a far-away max-iterations, the run cut short by its duration: the share is taken over
			// the iterations that ran
			for k, mode := range []string{"users", "constant", "custom"} {
				if tier == "quick" && k == 2 {
					break
				}
				p := c08RunVerdictParams{Mode: mode, Ending: "duration", Fail: 2 + k, MaxR: []int{30, 10, 45}[k], Ignore: true, Conc: 2, FarLimit: true}
				c := core.MkCase("C08", "runverdict", 700+k, seed, p)
				c.Race = k%2 == 0
				c.TimeoutMS = 60000
				cs = append(cs, c)
			}
			// requests that were never executed because the run was stopped while they queued behind busy workers
			ndv := 6
			if tier == "thorough" {
				ndv = 48
			}
			for k := 0; k < ndv; k++ {
				c := core.MkCase("C08", "dropverdict", k, seed, c08DropVerdictParams{Mode: pick(r, "constant", "custom", "staged"), Ending: []string{"cancel", "duration", "cancel-in-body"}[k%3],
					Req: 2 + r.IntN(6), Conc: pick(r, 1, 1, 2), Ignore: (k/3)%2 == 1, MaxF: pick(r, 0, 3), MaxR: pick(r, 0, 50)})
				c.Race = k%2 == 0
				c.TimeoutMS = 60000
				cs = append(cs, c)
			}
			return cs
		},
		Kinds: map[string]core.RunFunc{
			"dropverdict": c08DropVerdict,
			"runverdict":  c08RunVerdict,
			"grid":        c08Grid,
			"seeded":      c08Seeded,
			"cli":         c08CLI,
		},
		Floors: map[string]int64{"evaluations": 50000, "decided_by_tolerance": 10000, "cli_runs": 10},
	})
}

func c08Result(p, f, d uint64, maxF uint64, maxR int, ignore bool, errs int) *run.Result {
	stats := &progress.Stats{}
	res := run.NewResult(options.RunOptions{
		Scenario: "s", MaxFailures: maxF, MaxFailuresRate: maxR, IgnoreDropped: ignore,
	}, views.New(), stats)
	// the verdict is about counts: measured durations of 0 ns (coarse clock) are as good as any
	dur := func(i uint64) int64 {
		switch (p + 3*f + 7*d + uint64(maxR)) % 3 {
		case 0:
			return 0
		case 1:
			return int64(i % 2)
		}
		return 1000
	}
	for i := uint64(0); i < p; i++ {
		stats.Record(metrics.SuccessResult, dur(i))
	}
	for i := uint64(0); i < f; i++ {
		stats.Record(metrics.FailedResult, dur(i))
	}
	for i := uint64(0); i < d; i++ {
		stats.Record(metrics.DroppedResult, 0)
	}
	if errs&1 != 0 {
		res.AddError(errors.New("setup failed"))
	}
	if errs&2 != 0 {
		res.AddError(errors.New("teardown failed"))
	}
	engine.TakeTotals(res)
	return res
}

func c08Eval(o *core.Outcome, viewsInst *views.Views, p, f, d uint64, maxF uint64, maxR int, ignore bool, errs int, big bool) bool {
	var res *run.Result
	if big {
		// large counts: build the snapshot through the real accumulators in bulk is too slow;
		// use Record for up to 3000 each and skip otherwise (handled by the caller)
		res = c08Result(p, f, d, maxF, maxR, ignore, errs)
	} else {
		res = c08Result(p, f, d, maxF, maxR, ignore, errs)
	}
	desc := fmt.Sprintf("P=%d F=%d D=%d max-failures=%d max-failures-rate=%d ignore-dropped=%v errors=%d", p, f, d, maxF, maxR, ignore, errs)
	var got bool
	panicked := func() (pv any) {
		defer func() { pv = recover() }()
		got = res.Failed()
		return nil
	}()
	o.Events++
	o.AddObs("evaluations", 1)
	if panicked != nil {
		o.Violate("verdict-panic:"+desc, "Failed() panicked (%v) for %s: the verdict must be defined for every combination", panicked, desc)
		return false
	}
	want := c08Reference(p, f, d, maxF, maxR, ignore, errs)
	if got != want {
		o.Violate("verdict:"+desc, "Failed()=%v, documented tolerances give %v for %s", got, want, desc)
		return false
	}
	hasErr := res.Error() != nil
	if hasErr != (errs != 0) {
		o.Violate("verdict-error:"+desc, "Error()!=nil is %v with %d recorded errors", hasErr, errs)
		return false
	}
	if errs == 0 {
		o.AddObs("decided_by_tolerance", 1)
		clause := "pass"
		switch {
		case !ignore && d > 0:
			clause = "dropped"
		case maxF == 0 && maxR == 0 && f > 0:
			clause = "any-failure"
		case maxF > 0 && f > maxF:
			clause = "max-failures"
		case want:
			clause = "rate"
		}
		at := ""
		if maxR > 0 && p+f+d > 0 && 100*f == uint64(maxR)*(p+f+d) {
			at = ":at-threshold"
		}
		o.Sig("clause=%s:maxF=%d:maxR=%d:ignore=%v%s:zero=%v", clause, maxF, maxR, ignore, at, p+f+d == 0)
	}
	return true
}

func c08Grid(c *core.Case, o *core.Outcome) {
	var gp c08GridParams
	c.Params(&gp)
	v := views.New()
	for _, mr := range c08Rates {
		for p := uint64(0); p <= 6; p++ {
			for f := uint64(0); f <= 6; f++ {
				for d := uint64(0); d <= 6; d++ {
					if !c08Eval(o, v, p, f, d, gp.MaxF, mr, gp.Ignore, gp.Errs, false) {
						return
					}
				}
			}
		}
	}
	o.Sample = map[string]any{"grid_slice": gp, "rates": c08Rates, "triples": 343}
}

func c08Seeded(c *core.Case, o *core.Outcome) {
	var sp c08SeededParams
	c.Params(&sp)
	r := c.Rng("seeded")
	v := views.New()
	var last string
	for i := 0; i < sp.N; i++ {
		maxR := []int{1, 2, 5, 7, 33, 50, 99, 100, 150}[r.IntN(9)]
		maxF := []uint64{0, 0, 3, 1000}[r.IntN(4)]
		ignore := r.IntN(2) == 0
		// choose total and failed so that 100*F - maxR*total is in {-1,0,+1} or nearby
		total := uint64(1 + r.IntN(2500))
		if r.IntN(3) == 0 {
			total = uint64(1 + r.IntN(60))
		}
		base := uint64(maxR) * total / 100
		f := base
		switch r.IntN(4) {
		case 0:
			f = base + 1
		case 1:
			if base > 0 {
				f = base - 1
			}
		case 2:
			f = uint64(r.IntN(int(total) + 1))
		}
		if f > total {
			f = total
		}
		d := uint64(0)
		if r.IntN(3) == 0 && total > f {
			d = uint64(r.IntN(int(total-f) + 1))
		}
		p := total - f - d
		if !c08Eval(o, v, p, f, d, maxF, maxR, ignore, 0, true) {
			return
		}
		last = fmt.Sprintf("P=%d F=%d D=%d maxF=%d maxR=%d", p, f, d, maxF, maxR)
	}
	o.Sample = map[string]any{"last_triple": last, "count": sp.N}
}

// quietHandler is a slog handler that is disabled for every level.
type quietHandler struct{}

func (quietHandler) Enabled(context.Context, slog.Level) bool  { return false }
func (quietHandler) Handle(context.Context, slog.Record) error { return nil }
func (h quietHandler) WithAttrs([]slog.Attr) slog.Handler      { return h }
func (h quietHandler) WithGroup(string) slog.Handler           { return h }

// msgHandler keeps the messages of the records it is given.
type msgHandler struct {
	mu   *sync.Mutex
	msgs *[]string
}

func (msgHandler) Enabled(context.Context, slog.Level) bool { return true }
func (h msgHandler) Handle(_ context.Context, r slog.Record) error {
	h.mu.Lock()
	*h.msgs = append(*h.msgs, r.Level.String()+"|"+r.Message)
	h.mu.Unlock()
	return nil
}
func (h msgHandler) WithAttrs([]slog.Attr) slog.Handler { return h }
func (h msgHandler) WithGroup(string) slog.Handler      { return h }

// c08LateOutcome: every worker's first iteration outlives the run and its completion timeout and fails while the scenario
// is torn down (a slow teardown). Whether or not such an outcome still counts, the command's error and the summary the
// run itself reported state the same verdict.
func c08LateOutcome(c *core.Case, o *core.Outcome, p c08CLIParams) {
	release := make(chan struct{})
	var started, failedLate atomic.Int64
	scenario := func(t *f1testing.T) f1testing.RunFn {
		t.Cleanup(func() {
			close(release)
			time.Sleep(900 * time.Millisecond)
		})
		return func(t *f1testing.T) {
			started.Add(1)
			<-release
			t.Fail()
			failedLate.Add(1)
		}
	}
	var mu sync.Mutex
	var msgs []string
	inst := f1.New().WithLogger(slog.New(msgHandler{mu: &mu, msgs: &msgs}))
	args := []string{"run", "users", "-c", fmt.Sprint(p.Conc), "-d", "300ms", "sc"}
	t0 := time.Now()
	err := inst.Add("sc", scenario).ExecuteWithArgs(args)
	o.Events += started.Load() + 1
	o.AddObs("cli_runs", 1)
	desc := fmt.Sprintf("%+v args=%v", p, args)
	mu.Lock()
	defer mu.Unlock()
	said := ""
	for _, m := range msgs {
		if strings.Contains(m, "Load Test Passed") || strings.Contains(m, "Load Test Failed") {
			said = m
		}
	}
	if said == "" || started.Load() == 0 {
		o.Inconc("no final summary among %d log records / %d iterations started (%s)", len(msgs), started.Load(), desc)
		return
	}
	if failedLate.Load() == 0 || time.Since(t0) < 9*time.Second {
		o.Inconc("the iterations did not outlive the completion timeout (%s)", desc)
		return
	}
	if strings.Contains(said, "Load Test Failed") != (err != nil) {
		o.Violate("cli-lateoutcome", "%d iterations outlived the completion timeout and failed during the teardown; the run's summary says %q, the command returned error %v (%s)", failedLate.Load(), said, err, desc)
		return
	}
	o.AddObs("decided_by_tolerance", 1)
	o.Sig("cli:lateoutcome:conc=%d:said=%s", p.Conc, said)
}

// c08TwoRuns: two command lines on one f1 instance; what the first one set (a tolerance) is not in force for the second.
func c08TwoRuns(c *core.Case, o *core.Outcome, p c08CLIParams) {
	var n atomic.Int64
	inst := f1.New().Add("sc", func(t *f1testing.T) f1testing.RunFn {
		return func(t *f1testing.T) {
			if n.Add(1)%4 == 1 {
				t.Fail()
			}
		}
	})
	first := []string{"run", "users", "-c", "1", "-i", "4", "-d", "30s", "sc"}
	switch p.Conc % 3 {
	case 0:
		first = append(first, "--max-failures", "2")
	case 1:
		first = append(first, "--max-failures-rate", "50")
	default:
		first = append(first, "--ignore-dropped", "--max-failures", "1")
	}
	err1 := inst.ExecuteWithArgs(first)
	err2 := inst.ExecuteWithArgs([]string{"run", "users", "-c", "1", "-i", "4", "-d", "30s", "sc"})
	o.Events += n.Load()
	o.AddObs("cli_runs", 2)
	desc := fmt.Sprintf("first=%v", first)
	if err1 != nil {
		o.Violate("cli-tworuns-first", "1 failure of 4 within the tolerance given on the command line, yet the command returned %v (%s)", err1, desc)
		return
	}
	if err2 == nil {
		o.Violate("cli-tworuns-second", "the second command line on the same f1 instance gives no tolerance and 1 of its 4 iterations failed, yet it returned success: the first command's tolerance was still in force (%s)", desc)
		return
	}
	o.Sig("cli:tworuns:%d", p.Conc%3)
}

// c08CLI runs the real CLI and compares the returned error with the reference.
func c08CLI(c *core.Case, o *core.Outcome) {
	var p c08CLIParams
	c.Params(&p)
	if p.Mode == "tworuns" {
		c08TwoRuns(c, o, p)
		return
	}
	if p.Mode == "lateoutcome" {
		c08LateOutcome(c, o, p)
		return
	}
	var started, failedPlanned, passed atomic.Int64
	var setupRuns atomic.Int64
	gate := make(chan struct{})
	scenario := func(t *f1testing.T) f1testing.RunFn {
		setupRuns.Add(1)
		if p.Mode != "setupfail" && (p.FailVia == engine.BOtherFailNow || p.FailVia == engine.BOtherRequire) {
			// failing iterations stop through the handle captured here (a require.New(t) made in setup, say)
			engine.OtherHandle.Store(t)
		}
		if p.Mode == "teardownfail" {
			kinds := []int{engine.BFailNow, engine.BFail, engine.BPanicString, engine.BPanicError, engine.BNilMap, engine.BRequire, engine.BPanicInt}
			kind := kinds[p.Conc%len(kinds)]
			t.Cleanup(func() { engine.Behave(t, kind) })
		}
		if p.Mode == "setupfail" {
			if p.FailVia != 0 {
				engine.Behave(t, p.FailVia)
				return func(*f1testing.T) { started.Add(1) }
			}
			t.FailNow()
		}
		return func(t *f1testing.T) {
			n := started.Add(1)
			if p.Mode == "signal" {
				// every iteration fails; the tenth interrupts the process the way a terminal does
				if n == 10 {
					_ = syscall.Kill(os.Getpid(), syscall.SIGINT)
				}
				time.Sleep(2 * time.Millisecond)
				t.Fail()
				return
			}
			if p.Mode == "drops" {
				// hold the single worker so that later ticks find work pending
				if n == 1 {
					<-gate
				}
				passed.Add(1)
				return
			}
			if int(n) <= p.Fail {
				failedPlanned.Add(1)
				if p.FailVia != 0 {
					engine.Behave(t, p.FailVia)
					return
				}
				t.Fail()
				return
			}
			passed.Add(1)
		}
	}
	args := []string{"run"}
	switch {
	case p.Mode == "drops":
		args = append(args, "constant", "-r", "5/50ms", "--distribution", "none", "-c", "1", "-d", "600ms", "sc")
		if p.IgnoreForm == "=" {
			args = append(args, fmt.Sprintf("--ignore-dropped=%v", p.Ignore))
		} else if p.Ignore {
			args = append(args, "--ignore-dropped")
		}
		go func() { time.Sleep(300 * time.Millisecond); close(gate) }()
	case p.Mode == "signal":
		args = append(args, "users", "-c", "2", "-d", "30s", "sc")
	case p.ViaFile:
		dir := os.Getenv("TMPDIR")
		path := filepath.Join(dir, fmt.Sprintf("c08-%d.yaml", os.Getpid()))
		y := fmt.Sprintf("scenario: sc\nlimits:\n  max-duration: 30s\n  concurrency: %d\n  max-iterations: %d\n  max-failures: %d\n  max-failures-rate: %d\n  ignore-dropped: %v\nstages:\n- duration: 20s\n  mode: users\n", p.Conc, p.N, p.MaxF, p.MaxR, p.Ignore)
		if err := os.WriteFile(path, []byte(y), 0o644); err != nil {
			o.Inconc("cannot write config: %v", err)
			return
		}
		defer os.Remove(path)
		args = append(args, "file", path)
	default:
		args = append(args, "users", "-c", fmt.Sprint(max(p.Conc, 1)), "-i", fmt.Sprint(p.N), "-d", "30s",
			"--max-failures", fmt.Sprint(p.MaxF), "--max-failures-rate", fmt.Sprint(p.MaxR), "sc")
		if p.IgnoreForm == "=" {
			args = append(args, fmt.Sprintf("--ignore-dropped=%v", p.Ignore))
		} else if p.Ignore {
			args = append(args, "--ignore-dropped")
		}
	}
	if p.Profile != "" {
		pf := filepath.Join(os.Getenv("TMPDIR"), fmt.Sprintf("c08-%d.prof", os.Getpid()))
		defer os.Remove(pf)
		args = append([]string{"--" + p.Profile, pf}, args...)
	}
	switch p.Env {
	case "logdir":
		old, had := os.LookupEnv("LOG_FILE_PATH")
		os.Setenv("LOG_FILE_PATH", os.TempDir())
		defer func() {
			if had {
				os.Setenv("LOG_FILE_PATH", old)
			} else {
				os.Unsetenv("LOG_FILE_PATH")
			}
		}()
	case "gateway503":
		gw := engine.NewGateway(503)
		defer gw.Close()
		os.Setenv("PROMETHEUS_PUSH_GATEWAY", gw.URL())
		defer os.Unsetenv("PROMETHEUS_PUSH_GATEWAY")
	}
	inst := f1.New()
	if p.Quiet {
		inst = inst.WithLogger(slog.New(quietHandler{}))
		args = append(args, "--verbose")
	}
	err := inst.Add("sc", scenario).ExecuteWithArgs(args)
	o.Events += started.Load() + 1
	o.AddObs("cli_runs", 1)
	desc := fmt.Sprintf("%+v args=%v", p, args)
	switch p.Mode {
	case "setupfail":
		if err == nil {
			o.Violate("cli-setupfail", "CLI returned nil although setup failed (%s)", desc)
		}
		if started.Load() != 0 {
			o.Violate("cli-setupfail-iter", "iterations ran although setup failed (%s)", desc)
		}
		o.Sig("cli:setupfail")
	case "teardownfail":
		if err == nil {
			o.Violate("cli-teardownfail", "CLI returned nil although teardown failed (%s)", desc)
		}
		o.Sig("cli:teardownfail")
	case "signal":
		if started.Load() < 10 {
			o.Inconc("the run ended after %d iterations, before it was interrupted (%s)", started.Load(), desc)
			return
		}
		if err == nil {
			o.Violate("cli-signal", "a run interrupted by SIGINT after %d iterations, all of them failed, returned no error: the verdict was lost (%s)", started.Load(), desc)
		}
		o.Sig("cli:signal")
	case "drops":
		// the first tick requests 5 with one held worker: at least 4 are pending when the next tick supersedes
		want := !p.Ignore
		if (err != nil) != want {
			o.Violate(fmt.Sprintf("cli-drops:ignore=%v", p.Ignore), "CLI error=%v, want failure=%v for a run with dropped iterations and ignore-dropped=%v (%s)", err, want, p.Ignore, desc)
		}
		o.Sig("cli:drops:ignore=%v", p.Ignore)
	default:
		if p.Env != "" && err != nil && started.Load() == 0 {
			o.Violate("cli-env:"+p.Env, "with %s the command returned %v and ran nothing: a valid run of %d iterations got no verdict at all (%s)", p.Env, err, p.N, desc)
			return
		}
		if int(started.Load()) != p.N {
			o.Inconc("run did not execute exactly N=%d iterations (%d): %s", p.N, started.Load(), desc)
			return
		}
		F := uint64(failedPlanned.Load())
		P := uint64(passed.Load())
		want := c08Reference(P, F, 0, uint64(p.MaxF), p.MaxR, p.Ignore, 0)
		if (err != nil) != want {
			o.Violate(fmt.Sprintf("cli:P=%d F=%d maxF=%d maxR=%d", P, F, p.MaxF, p.MaxR), "CLI error=%v, documented tolerances give failure=%v for P=%d F=%d D=0 (%s)", err, want, P, F, desc)
		}
		o.Sig("cli:users:file=%v:maxF=%d:maxR=%d:fail=%v", p.ViaFile, p.MaxF, p.MaxR, want)
	}
	if setupRuns.Load() != 1 {
		o.Violate("cli-setup-count", "setup ran %d times (%s)", setupRuns.Load(), desc)
	}
	o.Sample = map[string]any{"args": args, "started": started.Load(), "planned_failures": failedPlanned.Load(), "cli_error": fmt.Sprint(err)}
}
