package props

import (
	"context"
	"fmt"
	"math"
	"os"
	"regexp"
	"strconv"
	"strings"
	"sync"
	"sync/atomic"
	"time"

	"github.com/prometheus/client_golang/prometheus"
	"github.com/spf13/pflag"

	"github.com/form3tech-oss/f1/v2/internal/envsettings"
	"github.com/form3tech-oss/f1/v2/internal/metrics"
	"github.com/form3tech-oss/f1/v2/internal/options"
	"github.com/form3tech-oss/f1/v2/internal/trigger/api"
	"github.com/form3tech-oss/f1/v2/internal/trigger/constant"
	"github.com/form3tech-oss/f1/v2/internal/trigger/file"
	"github.com/form3tech-oss/f1/v2/internal/trigger/gaussian"
	"github.com/form3tech-oss/f1/v2/internal/trigger/ramp"
	"github.com/form3tech-oss/f1/v2/internal/trigger/rate"
	"github.com/form3tech-oss/f1/v2/internal/trigger/staged"
	"github.com/form3tech-oss/f1/v2/internal/ui"
	"github.com/form3tech-oss/f1/v2/pkg/f1"
	"github.com/form3tech-oss/f1/v2/pkg/f1/scenarios"
	f1testing "github.com/form3tech-oss/f1/v2/pkg/f1/testing"
	"github.com/form3tech-oss/f1/v2/verifharness/core"
	"github.com/form3tech-oss/f1/v2/verifharness/engine"
)

// C14 — every user input is either rejected with an error or yields a runnable trigger.

type c14Params struct {
	N int `json:"n"`
	// Fixed: the cli kind runs its fixed list of command lines instead of generated ones
	Fixed bool `json:"fixed,omitempty"`
}

func init() {
	core.Register(&core.Property{
		ID: "C14",
		Rule: "ratestr: rate strings from the grammar N/<dur>, N/<unit>, N and near-misses by character mutation; stagestr: stage lists and near-misses; flags: flag combinations for the constant, staged, ramp and gaussian builders with values in sane ranges incl. 0 and negatives; yaml: structured config documents with any subset of fields at default/stage level in all five modes, type-confused scalars, byte-level mutations of valid documents and raw random bytes; cli: real CLI invocations. " +
			"Oracle: no panic / crash (every batch runs in a child process, the input is logged before the call); outcome is an error or a trigger with positive tick interval, callable rate (non-negative inside the sane domain) and >= 1 worker; accepted rate strings inside the grammar equal an independent parse; every accepted flag set / config is actually run for 30-60 ms through run.Do; a CLI error must come before setup runs. " +
			"non-trivial = an accepted input that is not a default spelling, or a rejected near-miss one mutation away from an accepted input; distinct = distinct (kind, accepted?, shape class) classes",
		Assumptions: []string{
			"sane ranges: durations in [-1h, 10000h], concurrency in [-5, 512], jitter in [0,100), volume >= 0, weights > 0, targets and rates >= 0; inside them accepted rate functions must return values >= 0, outside only 'no crash' is demanded",
		},
		Gen: func(tier string, seed uint64) []core.Case {
			var cs []core.Case
			mult := 1
			if tier == "thorough" {
				mult = 12
			}
			for i := 0; i < 4*mult; i++ {
				cs = append(cs, core.MkCase("C14", "ratestr", i, seed, c14Params{N: 4000}))
			}
			for i := 0; i < 2*mult; i++ {
				cs = append(cs, core.MkCase("C14", "stagestr", i, seed, c14Params{N: 2500}))
			}
			for i := 0; i < 8*mult; i++ {
				c := core.MkCase("C14", "flags", i, seed, c14Params{N: 40})
				c.TimeoutMS = 120000
				cs = append(cs, c)
			}
			for i := 0; i < 8*mult; i++ {
				c := core.MkCase("C14", "yaml", i, seed, c14Params{N: 900})
				c.TimeoutMS = 120000
				cs = append(cs, c)
			}
			for i := 0; i < 2; i++ {
				c := core.MkCase("C14", "yamlgrid", i, seed, c14Params{N: i})
				c.TimeoutMS = 120000
				cs = append(cs, c)
			}
			for i := 0; i < 3*mult; i++ {
				if i == 0 {
					fc := core.MkCase("C14", "cli", 900, seed, c14Params{Fixed: true})
					fc.Solo = true
					fc.TimeoutMS = 120000
					cs = append(cs, fc)
				}
				c := core.MkCase("C14", "cli", i, seed, c14Params{N: 12})
				c.Solo = true
				c.TimeoutMS = 120000
				cs = append(cs, c)
			}
			return cs
		},
		Kinds:  map[string]core.RunFunc{"ratestr": c14RateStr, "stagestr": c14StageStr, "flags": c14Flags, "yaml": c14YAML, "yamlgrid": c14YAMLGrid, "cli": c14CLI},
		Floors: map[string]int64{"inputs": 20000, "accepted": 2000, "rejected": 5000, "accepted_and_run": 100, "cli_runs": 20},
	})
}

func c14Log(kind, input string) {
	fmt.Fprintf(os.Stderr, "C14 INPUT %s %q\n", kind, input)
}

const c14Alphabet = "0123456789/.-+esmhunµ "

func c14Mutate(r interface{ IntN(int) int }, s string) string {
	rs := []rune(s)
	al := []rune(c14Alphabet)
	switch r.IntN(4) {
	case 0: // replace
		if len(rs) > 0 {
			rs[r.IntN(len(rs))] = al[r.IntN(len(al))]
		}
	case 1: // insert
		i := r.IntN(len(rs) + 1)
		rs = append(rs[:i], append([]rune{al[r.IntN(len(al))]}, rs[i:]...)...)
	case 2: // delete
		if len(rs) > 0 {
			i := r.IntN(len(rs))
			rs = append(rs[:i], rs[i+1:]...)
		}
	default: // truncate
		if len(rs) > 0 {
			rs = rs[:r.IntN(len(rs))]
		}
	}
	return string(rs)
}

var c14Units = []string{"s", "ms", "m", "h", "us", "µs", "ns"}

// c14RefParse is the independent reading of a rate string inside the grammar.
func c14RefParse(s string) (n int, unit time.Duration, inGrammar bool) {
	isDigits := func(x string) bool {
		if x == "" {
			return false
		}
		for _, ch := range x {
			if ch < '0' || ch > '9' {
				return false
			}
		}
		return true
	}
	left, right, hasSlash := strings.Cut(s, "/")
	if !isDigits(left) || len(left) > 9 {
		return 0, 0, false
	}
	n, _ = strconv.Atoi(left)
	if !hasSlash {
		return n, time.Second, true
	}
	for _, u := range c14Units {
		if right == u {
			d, _ := time.ParseDuration("1" + u)
			return n, d, true
		}
	}
	if right != "" && (right[0] >= '0' && right[0] <= '9' || right[0] == '.') {
		d, err := time.ParseDuration(right)
		if err == nil && d > 0 {
			return n, d, true
		}
	}
	return 0, 0, false
}

func c14GenRate(r interface{ IntN(int) int }) string {
	n := strconv.Itoa(pick2(r, 0, 1, 5, 10, 100, 1000, r.IntN(100000)))
	switch r.IntN(6) {
	case 0:
		return n
	case 1:
		return n + "/" + c14Units[r.IntN(len(c14Units))]
	case 2:
		return n + "/" + strconv.Itoa(1+r.IntN(500)) + c14Units[r.IntN(len(c14Units))]
	case 3:
		return n + "/" + fmt.Sprintf("%d.%ds", r.IntN(3), r.IntN(10))
	case 4:
		return n + "/" + fmt.Sprintf(".%ds", 1+r.IntN(9))
	default:
		return n + "/" + fmt.Sprintf("%dm%ds", r.IntN(3), 1+r.IntN(59))
	}
}

func pick2(r interface{ IntN(int) int }, xs ...int) int { return xs[r.IntN(len(xs))] }

var (
	c14BellOnce sync.Once
	c14Bell     float64
)

func c14RateStr(c *core.Case, o *core.Outcome) {
	var p c14Params
	c.Params(&p)
	r := c.Rng("ratestr")
	for i := 0; i < p.N && o.Verdict != core.Violated; i++ {
		s := c14GenRate(r)
		mutated := 0
		for k := r.IntN(4); k > 0; k-- {
			if r.IntN(2) == 0 {
				s = c14Mutate(r, s)
				mutated++
			}
		}
		if r.IntN(50) == 0 {
			s = pick(r, "", "/", "10/", "/s", "1/.5s", "10/0s", "5/0", "-1/s", "1/-1s", "1//s", " 1/s", "1/s ", "1/1", "0/s", "9999999999999999999/s", "1/0.0s", "+5/s", "1/1e3s")
		}
		c14Log("ratestr", s)
		o.Events++
		o.AddObs("inputs", 1)
		n, unit, err := rate.ParseRate(s)
		if err != nil {
			o.AddObs("rejected", 1)
			if mutated == 1 {
				o.Sig("ratestr:rejected-near-miss")
			}
			// inside the grammar a rejection is only acceptable for the fractional spelling
			if _, _, ok := c14RefParse(s); ok && !strings.Contains(s, "/.") {
				o.Violate("ratestr-rejected:"+s, "rate string %q is inside the documented grammar but was rejected: %v", s, err)
				return
			}
			continue
		}
		o.AddObs("accepted", 1)
		if unit <= 0 || n < 0 {
			o.Violate("ratestr-unusable:"+s, "rate string %q accepted as %d per %v: not a usable tick interval / rate", s, n, unit)
			return
		}
		if rn, ru, ok := c14RefParse(s); ok && (rn != n || ru != unit) {
			o.Violate("ratestr-meaning:"+s, "rate string %q accepted as %d per %v, it spells %d per %v", s, n, unit, rn, ru)
			return
		}
		// the builder must agree: positive tick, callable rate
		rates, err := constant.CalculateConstantRate(0, s, "none")
		if err != nil || rates.IterationDuration != unit || rates.Rate(time.Now()) != n {
			o.Violate("ratestr-builder:"+s, "constant builder disagrees with ParseRate for %q: %v %+v", s, err, rates)
			return
		}
		// the same string given as the gaussian trigger's --peak-rate: the volume it stands for is n per unit
		// (per second: n/unit) times the area under the unit-height bell sampled once per second of a day
		if i%4 == 0 && n <= 1_000_000_000 {
			const pk, sd = 14 * time.Hour, 150 * time.Minute
			c14BellOnce.Do(func() {
				for x := 0; x < 86400; x++ {
					z := (float64(x) - pk.Seconds()) / sd.Seconds()
					c14Bell += math.Exp(-z * z / 2)
				}
			})
			got, verr := gaussian.CalculateVolume(s, pk, sd)
			want := float64(n) / unit.Seconds() * c14Bell
			if verr != nil || math.IsInf(got, 0) || math.IsNaN(got) || math.Abs(got-want) > 1+1e-9*want {
				o.Violate("ratestr-peak-rate:"+s, "rate string %q spells %d per %v; as a gaussian peak rate it stands for a volume of %.3f (bell area %.3f x %g per second), CalculateVolume gives %v (err %v)", s, n, unit, want, c14Bell, float64(n)/unit.Seconds(), got, verr)
				return
			}
			o.AddObs("peak_rate_volumes_checked", 1)
		}
		// the accepted meaning survives a distribution: over whole units the spread ticks deliver n per unit
		for _, dist := range []string{"regular", "random"} {
			dr, derr := constant.CalculateConstantRate(0, s, dist)
			if derr != nil || dr.IterationDuration <= 0 || unit%dr.IterationDuration != 0 || unit/dr.IterationDuration > 40000 || n > 1_000_000 {
				continue
			}
			per := int(unit / dr.IterationDuration)
			t0 := time.Unix(1700000000, 0)
			for u := 0; u < 3; u++ {
				sum := 0
				for k := 0; k < per; k++ {
					sum += dr.Rate(t0.Add(time.Duration(u*per+k) * dr.IterationDuration))
				}
				if sum != n {
					o.Violate("ratestr-distributed:"+s+":"+dist, "rate string %q spells %d per %v; with the %s distribution (tick %v, %d ticks per unit) unit %d delivered %d", s, n, unit, dist, dr.IterationDuration, per, u, sum)
					return
				}
			}
			o.AddObs("distributed_units_checked", 3)
			if per > 1 {
				o.Sig("ratestr:distributed:%s:ticks=%d", dist, per)
			}
		}
		if mutated > 0 {
			o.Sig("ratestr:accepted-mutated:slash=%v", strings.Contains(s, "/"))
		} else {
			o.Sig("ratestr:accepted:shape=%s", c14Shape(s))
		}
		if i == 0 {
			o.Sample = map[string]any{"input": s, "rate": n, "unit": unit.String()}
		}
	}
}

func c14Shape(s string) string {
	var sb strings.Builder
	last := byte(0)
	for i := 0; i < len(s); i++ {
		ch := s[i]
		cl := byte('x')
		switch {
		case ch >= '0' && ch <= '9':
			cl = 'd'
		case ch == '/' || ch == '.':
			cl = ch
		case ch >= 'a' && ch <= 'z':
			cl = 'a'
		}
		if cl != last {
			sb.WriteByte(cl)
			last = cl
		}
	}
	return sb.String()
}

func c14StageStr(c *core.Case, o *core.Outcome) {
	var p c14Params
	c.Params(&p)
	r := c.Rng("stagestr")
	for i := 0; i < p.N && o.Verdict != core.Violated; i++ {
		n := 1 + r.IntN(5)
		parts := make([]string, n)
		inDomain := true
		negTargets := r.IntN(4) == 0
		var totalDur time.Duration
		for k := range parts {
			d := genDuration(r, true)
			t := genTarget(r)
			if negTargets && r.IntN(2) == 0 {
				t = -1 - r.IntN(200)
			}
			totalDur += d
			parts[k] = fmt.Sprintf("%s:%d", d, t)
			if r.IntN(3) == 0 {
				parts[k] = " " + parts[k]
			}
		}
		s := strings.Join(parts, ",")
		mutated := 0
		for k := r.IntN(4); k > 0; k-- {
			if r.IntN(2) == 0 {
				s = c14Mutate(r, s)
				if r.IntN(3) == 0 {
					s = strings.Replace(s, ":", pick(r, "::", ";", ":"), 1)
				}
				mutated++
			}
		}
		if strings.Contains(s, "-") {
			inDomain = false
		}
		freq := pick(r, time.Second, 100*time.Millisecond, 5*time.Second, time.Millisecond, 0, -time.Second, time.Hour)
		dist := pick(r, "none", "regular", "random", "bogus")
		jit := pick(r, 0.0, 0.0, 10.0, 99.9)
		c14Log("stagestr", fmt.Sprintf("%s|%v|%s|%v", s, freq, dist, jit))
		o.Events++
		o.AddObs("inputs", 1)
		rates, err := staged.CalculateStagedRate(jit, freq, s, dist, nil)
		if err != nil {
			o.AddObs("rejected", 1)
			if mutated == 1 {
				o.Sig("stagestr:rejected-near-miss")
			}
			continue
		}
		o.AddObs("accepted", 1)
		if rates.IterationDuration <= 0 || rates.Rate == nil {
			o.Violate("stagestr-unusable:"+s, "stages %q with frequency %v accepted with tick interval %v", s, freq, rates.IterationDuration)
			return
		}
		t0 := time.Now()
		// evaluate across the whole profile and across several distribution cycles
		calls := 5
		if freq > rates.IterationDuration {
			calls = int(freq/rates.IterationDuration)*3 + 5
		}
		if calls > 400 {
			calls = 400
		}
		step := rates.IterationDuration
		if totalDur/time.Duration(calls) > step {
			step = totalDur / time.Duration(calls)
		}
		for q := 0; q < calls && o.Verdict != core.Violated; q++ {
			var v int
			func() {
				defer func() {
					if pv := recover(); pv != nil {
						o.Violate("stagestr-panic:"+s, "rate function of accepted stages %q (frequency %v, distribution %s) panicked at call %d: %v", s, freq, dist, q, pv)
					}
				}()
				v = rates.Rate(t0.Add(time.Duration(q) * step))
			}()
			if v < 0 && inDomain {
				o.Violate("stagestr-negative:"+s, "stages %q (non-negative targets) evaluate to %d", s, v)
				return
			}
		}
		if o.Verdict == core.Violated {
			return
		}
		o.Sig("stagestr:accepted:n=%d:dist=%s:mut=%v", strings.Count(s, ",")+1, dist, mutated > 0)
		if i == 0 {
			o.Sample = map[string]any{"stages": s, "frequency": freq.String(), "distribution": dist}
		}
	}
}

// c14RunTrigger runs the trigger for a few tens of milliseconds through run.NewRun/Do.
func c14RunTrigger(o *core.Outcome, trig *api.Trigger, conc int, desc string, r interface{ IntN(int) int }) bool {
	var started atomic.Int64
	sc := scenarios.New().Add(&scenarios.Scenario{Name: "verifScenario", ScenarioFn: func(t *f1testing.T) f1testing.RunFn {
		return func(t *f1testing.T) { started.Add(1) }
	}})
	l := engine.NewLog()
	m := metrics.NewInstance(prometheus.NewRegistry(), false, nil)
	maxDur := time.Duration(30+r.IntN(30)) * time.Millisecond
	fr, err := engine.NewRun(options.RunOptions{Scenario: "verifScenario", MaxDuration: maxDur, Concurrency: conc, IgnoreDropped: true, MaxIterations: 2000},
		sc, trig, 200*time.Millisecond, envsettings.Settings{Log: envsettings.Log{FilePath: "/dev/null"}}, m, engine.NewOutput(l, false))
	if err != nil {
		o.Violate("run-new:"+desc, "NewRun failed for an accepted trigger: %v", err)
		return false
	}
	done := make(chan error, 1)
	go func() {
		defer func() {
			if p := recover(); p != nil {
				done <- fmt.Errorf("panic: %v", p)
			}
		}()
		_, err := fr.Do(context.Background())
		done <- err
	}()
	select {
	case err := <-done:
		if err != nil {
			o.Violate("run-crash:"+desc, "running the accepted trigger failed: %v (%s)", err, desc)
			return false
		}
	case <-time.After(30 * time.Second):
		o.Violate("run-hang:"+desc, "the accepted trigger did not finish a %v run within 30 s (%s)", maxDur, desc)
		return false
	}
	o.AddObs("accepted_and_run", 1)
	return true
}

func c14Flags(c *core.Case, o *core.Outcome) {
	var p c14Params
	c.Params(&p)
	r := c.Rng("flags")
	durs := []string{"0s", "1s", "100ms", "1ms", "-1s", "10m", "1h", "24h", "50ms", "5s"}
	for i := 0; i < p.N && o.Verdict != core.Violated; i++ {
		var b api.Builder
		name := pick(r, "constant", "staged", "ramp", "gaussian")
		set := map[string]string{}
		inDomain := true
		rateS := func() string {
			s := c14GenRate(r)
			if r.IntN(4) == 0 {
				s = c14Mutate(r, s)
			}
			return s
		}
		switch name {
		case "constant":
			b = constant.Rate()
			set["rate"] = rateS()
		case "staged":
			b = staged.Rate()
			set["stages"] = pick(r, "0s:1, 10s:1", "0s:5,1s:50,2s:0", "1s:10", "0s:1,10s:-91", "5s:100,5s:0", "x", "1s:1:1")
			set["iterationFrequency"] = durs[r.IntN(len(durs))]
			if strings.Contains(set["stages"], "-") {
				inDomain = false
			}
		case "ramp":
			b = ramp.Rate()
			set["start-rate"] = rateS()
			set["end-rate"] = rateS()
			set["ramp-duration"] = durs[r.IntN(len(durs))]
		case "gaussian":
			b = gaussian.Rate(ui.NewDiscardOutput())
			set["volume"] = pick(r, "0", "1", "1000", "86400", "1e7", "-5", "NaN")
			set["repeat"] = durs[r.IntN(len(durs))]
			set["iteration-frequency"] = durs[r.IntN(len(durs))]
			set["peak"] = durs[r.IntN(len(durs))]
			set["standard-deviation"] = durs[r.IntN(len(durs))]
			set["weights"] = pick(r, "", "1", "1,2,3", "0.5,1.5", "x", "0", "-1,1", "1,,2")
			if r.IntN(3) == 0 {
				set["peak-rate"] = rateS()
			}
			pd, _ := time.ParseDuration(set["peak"])
			rd, _ := time.ParseDuration(set["repeat"])
			sd, _ := time.ParseDuration(set["standard-deviation"])
			fd, _ := time.ParseDuration(set["iteration-frequency"])
			if pd > rd || sd < fd || rd < 2*fd || fd <= 0 {
				inDomain = false // C11's domain: peak inside the window, sigma >= tick, tick <= window
			}
			if set["volume"] == "-5" || set["volume"] == "NaN" || strings.Contains(set["weights"], "-") || set["weights"] == "0" || strings.HasPrefix(set["repeat"], "-") || set["repeat"] == "0s" || strings.HasPrefix(set["peak"], "-") {
				inDomain = false
			}
		}
		set["jitter"] = pick(r, "0", "0", "5", "50", "99.9", "100", "-3")
		if set["jitter"] == "100" || set["jitter"] == "-3" {
			inDomain = false
		}
		set["distribution"] = pick(r, "none", "regular", "random", "bogus", "")
		desc := fmt.Sprintf("%s %v", name, set)
		c14Log("flags", desc)
		o.Events++
		o.AddObs("inputs", 1)
		flagErr := false
		for k, v := range set {
			if err := b.Flags.Set(k, v); err != nil {
				flagErr = true
			}
		}
		if flagErr {
			o.AddObs("rejected", 1)
			continue
		}
		var trig *api.Trigger
		var err error
		func() {
			defer func() {
				if pv := recover(); pv != nil {
					o.Violate("flags-panic:"+desc, "building the trigger panicked: %v (%s)", pv, desc)
				}
			}()
			trig, err = b.New(b.Flags)
		}()
		if o.Verdict == core.Violated {
			return
		}
		if err != nil {
			o.AddObs("rejected", 1)
			o.Sig("flags:%s:rejected", name)
			continue
		}
		o.AddObs("accepted", 1)
		if name == "ramp" {
			// accepted rates must mean what they spell: both ends of the ramp are per the tick interval
			_, su, sok := c14RefParse(set["start-rate"])
			_, eu, eok := c14RefParse(set["end-rate"])
			rd, _ := time.ParseDuration(set["ramp-duration"])
			jv, _ := strconv.ParseFloat(set["jitter"], 64)
			if rr, rerr := ramp.CalculateRampRate(set["start-rate"], set["end-rate"], "none", rd, jv); rerr == nil && sok && eok {
				if rr.IterationDuration != su || rr.IterationDuration != eu {
					o.Violate("flags-ramp-unit:"+desc, "ramp accepted with start-rate %q (per %v) and end-rate %q (per %v) and ticks every %v: one of the rates does not mean what it spells (%s)", set["start-rate"], su, set["end-rate"], eu, rr.IterationDuration, desc)
					return
				}
			}
		}
		if pr, has := set["peak-rate"]; name == "gaussian" && has && pr != "" && trig != nil {
			// a peak rate given on the command line decides the volume: n per unit (per second: n/unit) times the
			// area under the unit-height bell sampled once per second of a day - whatever --volume says; a string
			// that is no rate cannot have been accepted
			pn, pu, pok := c14RefParse(pr)
			pd, _ := time.ParseDuration(set["peak"])
			sd, _ := time.ParseDuration(set["standard-deviation"])
			if !pok {
				if _, _, perr := rate.ParseRate(pr); perr != nil {
					o.Violate("flags-peak-rate-accepted:"+desc, "--peak-rate %q is not a rate (%v) and the flags were accepted all the same (%s)", pr, perr, desc)
					return
				}
			} else if sd > 0 {
				bell := 0.0
				for x := 0; x < 86400; x++ {
					z := (float64(x) - pd.Seconds()) / sd.Seconds()
					bell += math.Exp(-z * z / 2)
				}
				want := math.Round(float64(pn) / pu.Seconds() * bell)
				var got float64 = math.NaN()
				if m := regexp.MustCompile(`triggering (-?\d+) iterations per`).FindStringSubmatch(trig.Description); m != nil {
					got, _ = strconv.ParseFloat(m[1], 64)
				}
				if want < 9e18 && math.Abs(got-want) > 1+1e-9*want {
					o.Violate("flags-peak-rate-meaning:"+desc, "--peak-rate %q spells %d per %v: with peak %v and standard deviation %v that is a volume of %.0f; the trigger describes itself as %q (%s)", pr, pn, pu, pd, sd, want, trig.Description, desc)
					return
				}
				o.AddObs("peak_rate_flags_checked", 1)
			}
		}
		if trig == nil || trig.Trigger == nil || trig.DryRun == nil {
			o.Violate("flags-nil:"+desc, "accepted flags produced an unusable trigger (%s)", desc)
			return
		}
		t0 := time.Now()
		for q := 0; q < 80; q++ {
			var v int
			func() {
				defer func() {
					if pv := recover(); pv != nil {
						o.Violate("flags-rate-panic:"+desc, "the rate function panicked: %v (%s)", pv, desc)
					}
				}()
				v = trig.DryRun(t0.Add(time.Duration(q) * 250 * time.Millisecond))
			}()
			if o.Verdict == core.Violated {
				return
			}
			if v < 0 && inDomain {
				o.Violate("flags-negative:"+desc, "accepted in-domain flags evaluate to %d (%s)", v, desc)
				return
			}
		}
		// rebuild (DryRun consumed state) and run it
		b2 := map[string]func() api.Builder{"constant": constant.Rate, "staged": staged.Rate, "ramp": ramp.Rate, "gaussian": func() api.Builder { return gaussian.Rate(ui.NewDiscardOutput()) }}[name]()
		for k, v := range set {
			b2.Flags.Set(k, v)
		}
		trig2, err := b2.New(b2.Flags)
		if err != nil {
			o.Violate("flags-unstable:"+desc, "the same flags were accepted once and rejected the second time: %v", err)
			return
		}
		if !c14RunTrigger(o, trig2, 1+r.IntN(8), desc, r) {
			return
		}
		o.Sig("flags:%s:accepted:dist=%s:domain=%v", name, set["distribution"], inDomain)
		if i == 0 || o.Sample == nil {
			o.Sample = map[string]any{"builder": name, "flags": set, "accepted": true}
		}
	}
}

// c14Field describes valid and hostile spellings of one stage field.
type c14Field struct{ valid, hostile []string }

var c14Fields = map[string]c14Field{
	"rate":                {[]string{"10/s", "5/100ms", "1/s", "5", "20/50ms", "0/s"}, []string{"10/", "1/.5s", "10/0s", "x", "-1/s", "1/-1s"}},
	"start-rate":          {[]string{"1/s", "0/s", "5/100ms"}, []string{"x", "10/", "5/0s"}},
	"end-rate":            {[]string{"10/s", "9/s", "50/100ms"}, []string{"x", "1/m"}},
	"distribution":        {[]string{"none", "regular", "random"}, []string{"bogus", "\"\""}},
	"weights":             {[]string{"\"\"", "\"1,2\"", "\"1\""}, []string{"x", "\"0\"", "\"-1\"", "\"1,,x\""}},
	"stages":              {[]string{"\"0s:1,10s:1\"", "\"0s:5,1s:50\""}, []string{"\"1s:-5\"", "x", "\"\"", "\"1s:1:1\""}},
	"concurrency":         {[]string{"1", "2", "10"}, []string{"0", "-5", "x", "1.5"}},
	"jitter":              {[]string{"0", "10", "99.9"}, []string{"100", "-1", "x"}},
	"volume":              {[]string{"1000", "0", "86400", "1e6"}, []string{"-1", "x", ".nan"}},
	"duration":            {[]string{"1s", "200ms", "10m", "80ms"}, []string{"0s", "-1s", "x", "5"}},
	"iteration-frequency": {[]string{"1s", "100ms", "10ms"}, []string{"0s", "-1s", "x"}},
	"repeat":              {[]string{"1h", "10m", "10s"}, []string{"0s", "-1h", "x"}},
	"peak":                {[]string{"5s", "0s", "2s"}, []string{"-5m", "x", "20h"}},
	"standard-deviation":  {[]string{"1m", "2s", "1h"}, []string{"0s", "-1m", "x", "1ns"}},
}

var c14ModeFields = map[string][]string{
	"constant": {"rate", "distribution"},
	"ramp":     {"start-rate", "end-rate", "distribution"},
	"staged":   {"stages", "iteration-frequency", "distribution"},
	"gaussian": {"volume", "repeat", "iteration-frequency", "peak", "weights", "standard-deviation", "distribution"},
	"users":    {},
}

// c14GenYAML generates a structured config: mostly valid, with a per-document hostility level that
// controls how often a field is omitted, misplaced or spelled invalidly.
func c14GenYAML(r interface{ IntN(int) int }) (string, bool) {
	inDomain := true
	h := []int{3, 10, 30, 60}[r.IntN(4)] // percent
	bad := func() bool { return r.IntN(100) < h }
	val := func(f string) string {
		fd := c14Fields[f]
		if bad() {
			inDomain = false
			return fd.hostile[r.IntN(len(fd.hostile))]
		}
		return fd.valid[r.IntN(len(fd.valid))]
	}
	var y strings.Builder
	if !bad() {
		y.WriteString("scenario: " + pick2s(r, "verifScenario", "verifScenario", "x") + "\n")
	}
	lim := func(name string, valid, hostile []string) {
		if bad() && r.IntN(2) == 0 {
			return
		}
		v := valid[r.IntN(len(valid))]
		if bad() {
			v = hostile[r.IntN(len(hostile))]
			inDomain = false
		}
		y.WriteString("  " + name + ": " + v + "\n")
	}
	y.WriteString("limits:\n")
	lim("max-duration", []string{"1s", "200ms", "10m", "80ms"}, []string{"0s", "-1s", "x"})
	lim("concurrency", []string{"1", "4", "100", "512"}, []string{"0", "-5", "x"})
	lim("max-iterations", []string{"0", "10", "1000"}, []string{"-1", "x"})
	lim("ignore-dropped", []string{"true", "false"}, []string{"yes", "1", "x"})
	if r.IntN(3) == 0 {
		lim("max-failures", []string{"0", "5"}, []string{"-1", "x"})
	}
	if r.IntN(3) == 0 {
		lim("max-failures-rate", []string{"0", "5", "100"}, []string{"101", "-1", "x"})
	}
	modes := []string{"constant", "ramp", "staged", "gaussian", "users"}
	ns := 1 + r.IntN(4)
	if bad() && r.IntN(3) == 0 {
		ns = 0
	}
	type stg struct {
		mode   string
		fields map[string]string
	}
	def := map[string]string{}
	stages := make([]stg, ns)
	for k := range stages {
		st := stg{mode: modes[r.IntN(len(modes))], fields: map[string]string{}}
		need := append([]string{"duration"}, c14ModeFields[st.mode]...)
		if st.mode != "users" && r.IntN(2) == 0 {
			need = append(need, "jitter")
		}
		if st.mode == "users" && r.IntN(3) > 0 {
			need = append(need, "concurrency")
		}
		for _, f := range need {
			if bad() && r.IntN(2) == 0 {
				continue // omitted
			}
			if r.IntN(3) == 0 {
				if _, ok := def[f]; !ok {
					def[f] = val(f)
				}
				continue // inherited from the default section
			}
			st.fields[f] = val(f)
		}
		if bad() {
			extra := engine.SortedKeys(c14Fields)[r.IntN(len(c14Fields))]
			st.fields[extra] = val(extra)
		}
		switch {
		case bad():
			st.fields["mode"] = pick2s(r, "bogus", "\"\"", "1")
		case r.IntN(4) == 0 && def["mode"] == "":
			def["mode"] = st.mode
		case def["mode"] == st.mode && r.IntN(2) == 0:
		default:
			st.fields["mode"] = st.mode
		}
		stages[k] = st
	}
	if len(def) > 0 || !bad() {
		y.WriteString("default:\n")
		if len(def) == 0 {
			y.WriteString("  jitter: 0\n")
		}
		for _, f := range engine.SortedKeys(def) {
			fmt.Fprintf(&y, "  %s: %s\n", f, def[f])
		}
		if r.IntN(4) == 0 {
			y.WriteString("  parameters:\n    VERIF_FUZZ_K: v\n")
		}
	}
	if r.IntN(3) == 0 {
		y.WriteString("schedule:\n  stage-start: " + pick2s(r, "2020-01-01T00:00:00Z", "2999-01-01T00:00:00Z", time.Now().Add(-time.Second).UTC().Format(time.RFC3339), "x") + "\n")
	}
	if ns > 0 || !bad() {
		y.WriteString("stages:\n")
	}
	for _, st := range stages {
		if r.IntN(12) == 0 {
			// a stage that takes everything from the default section, written as an empty list item
			y.WriteString(pick2s(r, "-\n", "- ~\n", "- null\n", "- {}\n"))
			inDomain = false
			continue
		}
		first := true
		ks := engine.SortedKeys(st.fields)
		if len(ks) == 0 {
			ks = []string{"jitter"}
			st.fields["jitter"] = "0"
		}
		for _, f := range ks {
			pre := "  "
			if first {
				pre = "- "
				first = false
			}
			fmt.Fprintf(&y, "%s%s: %s\n", pre, f, st.fields[f])
		}
		if r.IntN(4) == 0 {
			y.WriteString("  parameters:\n    VERIF_FUZZ_K: v\n")
		}
	}
	return y.String(), inDomain
}

func pick2s(r interface{ IntN(int) int }, xs ...string) string { return xs[r.IntN(len(xs))] }

const c14ValidYAML = `scenario: verifScenario
limits:
  max-duration: 1s
  concurrency: 4
  max-iterations: 100
  ignore-dropped: true
default:
  distribution: none
  jitter: 0
  duration: 100ms
stages:
- mode: constant
  rate: 5/10ms
- mode: users
  concurrency: 2
- mode: staged
  stages: 0s:1,1s:10
  iteration-frequency: 10ms
- mode: ramp
  start-rate: 1/10ms
  end-rate: 9/10ms
- mode: gaussian
  volume: 1000
  repeat: 10s
  iteration-frequency: 10ms
  peak: 5s
  weights: ""
  standard-deviation: 2s
`

// c14YAMLGrid enumerates single-fault documents: for every mode, with the mode's fields placed at
// stage level (N=0) or at default level (N=1), every field (also the limits) takes every hostile
// spelling in turn, or is omitted.
func c14YAMLGrid(c *core.Case, o *core.Outcome) {
	var p c14Params
	c.Params(&p)
	atDefault := p.N == 1
	r := c.Rng("grid")
	limits := map[string]c14Field{
		"max-duration":   {[]string{"200ms"}, []string{"0s", "-1s", "x"}},
		"concurrency":    {[]string{"4"}, []string{"0", "-5", "x"}},
		"max-iterations": {[]string{"50"}, []string{"-1", "x"}},
		"ignore-dropped": {[]string{"true"}, []string{"x"}},
	}
	build := func(mode string, over map[string]string, omit string) string {
		var y strings.Builder
		y.WriteString("scenario: verifScenario\nlimits:\n")
		for _, k := range []string{"max-duration", "concurrency", "max-iterations", "ignore-dropped"} {
			if omit == "limits."+k {
				continue
			}
			v := limits[k].valid[0]
			if ov, ok := over["limits."+k]; ok {
				v = ov
			}
			fmt.Fprintf(&y, "  %s: %s\n", k, v)
		}
		fields := append([]string{"duration"}, c14ModeFields[mode]...)
		if mode == "users" {
			fields = append(fields, "concurrency")
		} else {
			fields = append(fields, "jitter")
		}
		emit := func(indent string, first *bool) {
			for _, f := range fields {
				if omit == f {
					continue
				}
				v := c14Fields[f].valid[0]
				if ov, ok := over[f]; ok {
					v = ov
				}
				pre := indent
				if first != nil && *first {
					pre = "- "
					*first = false
				}
				fmt.Fprintf(&y, "%s%s: %s\n", pre, f, v)
			}
		}
		if atDefault {
			y.WriteString("default:\n")
			emit("  ", nil)
			y.WriteString("stages:\n- mode: " + mode + "\n- mode: " + mode + "\n")
		} else {
			y.WriteString("default:\n  parameters:\n    VERIF_FUZZ_K: v\nstages:\n- mode: " + mode + "\n")
			emit("  ", nil)
		}
		return y.String()
	}
	for _, mode := range []string{"constant", "ramp", "staged", "gaussian", "users"} {
		var docs []string
		docs = append(docs, build(mode, nil, ""))
		fields := append([]string{"duration", "jitter", "concurrency"}, c14ModeFields[mode]...)
		for _, f := range fields {
			docs = append(docs, build(mode, nil, f))
			for _, hv := range c14Fields[f].hostile {
				docs = append(docs, build(mode, map[string]string{f: hv}, ""))
			}
		}
		for k, fd := range limits {
			docs = append(docs, build(mode, nil, "limits."+k))
			for _, hv := range fd.hostile {
				docs = append(docs, build(mode, map[string]string{"limits." + k: hv}, ""))
			}
		}
		for di, doc := range docs {
			if !c14CheckDoc(o, doc, "grid:"+mode, false, true, r) {
				return
			}
			if di == 0 && o.Sample == nil {
				o.Sample = map[string]any{"document": doc}
			}
		}
	}
}

func c14YAML(c *core.Case, o *core.Outcome) {
	var p c14Params
	c.Params(&p)
	r := c.Rng("yaml")
	for i := 0; i < p.N && o.Verdict != core.Violated; i++ {
		var doc string
		inDomain := true
		class := ""
		switch x := r.IntN(10); {
		case x < 6:
			doc, inDomain = c14GenYAML(r)
			class = "structured"
		case x < 9:
			b := []byte(c14ValidYAML)
			for k := 1 + r.IntN(3); k > 0; k-- {
				switch r.IntN(4) {
				case 0:
					b[r.IntN(len(b))] = byte(r.IntN(256))
				case 1:
					j := r.IntN(len(b))
					b = append(b[:j], b[min(len(b), j+1+r.IntN(8)):]...)
				case 2:
					j := r.IntN(len(b))
					ins := []byte(pick(r, "\n", " ", ":", "-", "0", "-1", "\t", "&a", "*a", "!!str ", "[", "{", "0s", "x"))
					b = append(b[:j], append(ins, b[j:]...)...)
				default:
					// line-level: delete or duplicate a line
					lines := strings.Split(string(b), "\n")
					j := r.IntN(len(lines))
					if r.IntN(2) == 0 {
						lines = append(lines[:j], lines[j+1:]...)
					} else {
						lines = append(lines[:j], append([]string{lines[j]}, lines[j:]...)...)
					}
					b = []byte(strings.Join(lines, "\n"))
				}
			}
			doc = string(b)
			inDomain = false // a mutation may move a value out of its domain: only 'no crash / runnable' is demanded
			class = "mutated"
		default:
			n := r.IntN(200)
			b := make([]byte, n)
			for k := range b {
				b[k] = byte(r.IntN(256))
			}
			doc = string(b)
			class = "bytes"
		}
		if !c14CheckDoc(o, doc, class, inDomain, r.IntN(3) == 0, r) {
			return
		}
	}
}

// c14CheckDoc applies the error-or-runnable oracle to one config document.
func c14CheckDoc(o *core.Outcome, doc, class string, inDomain, runIt bool, r interface{ IntN(int) int }) bool {
	for once := true; once; once = false {
		c14Log("yaml", doc)
		o.Events++
		o.AddObs("inputs", 1)
		var rs *file.RunnableStages
		var err error
		func() {
			defer func() {
				if pv := recover(); pv != nil {
					o.Violate("yaml-panic:"+class, "ParseConfigFile panicked: %v on document:\n%s", pv, doc)
				}
			}()
			rs, err = file.ParseConfigFile([]byte(doc), time.Now())
		}()
		if o.Verdict == core.Violated {
			return false
		}
		if err != nil {
			o.AddObs("rejected", 1)
			o.Sig("yaml:%s:rejected", class)
			break
		}
		o.AddObs("accepted", 1)
		key := "yaml-accepted:" + class
		if rs.Concurrency < 1 {
			o.Violate(key, "config accepted with concurrency %d (no worker):\n%s", rs.Concurrency, doc)
			return false
		}
		if len(rs.Stages) == 0 && !strings.Contains(doc, "stage-start") {
			o.Violate(key, "config accepted with no runnable stage:\n%s", doc)
			return false
		}
		for si, st := range rs.Stages {
			if st.UsersConcurrency > 0 {
				continue
			}
			if st.UsersConcurrency < 0 || st.IterationDuration <= 0 || st.Rate == nil {
				o.Violate(key, "stage %d accepted with users concurrency %d, tick interval %v, rate nil=%v:\n%s", si, st.UsersConcurrency, st.IterationDuration, st.Rate == nil, doc)
				return false
			}
			t0 := time.Now()
			for q := 0; q < 5; q++ {
				var v int
				func() {
					defer func() {
						if pv := recover(); pv != nil {
							o.Violate(key, "rate function of stage %d panicked: %v:\n%s", si, pv, doc)
						}
					}()
					v = st.Rate(t0.Add(time.Duration(q) * st.IterationDuration))
				}()
				if o.Verdict == core.Violated {
					return false
				}
				if v < 0 && inDomain {
					o.Violate(key, "stage %d of an in-domain config evaluates to %d:\n%s", si, v, doc)
					return false
				}
			}
		}
		// run it (fresh parse: rate functions carry state)
		if rs.Concurrency <= 512 && runIt {
			rs2, err2 := file.ParseConfigFile([]byte(doc), time.Now())
			if err2 != nil {
				o.Violate(key, "the same document was accepted once and rejected the second time: %v", err2)
				return false
			}
			ok := true
			for _, st := range rs2.Stages {
				if st.UsersConcurrency > 512 {
					ok = false
				}
			}
			if ok {
				td, _, _ := file.VerifTotals(rs2)
				trig := &api.Trigger{Trigger: file.VerifStagesWorker(rs2), Description: "fuzz", Duration: td}
				if !c14RunTrigger(o, trig, rs2.Concurrency, "yaml:"+doc, r) {
					return false
				}
				if _, set := os.LookupEnv("VERIF_FUZZ_K"); set {
					o.Violate(key, "stage parameter still set in the environment after the run:\n%s", doc)
					return false
				}
			}
		}
		o.Sig("yaml:%s:accepted:stages=%d", class, len(rs.Stages))
		if o.Sample == nil {
			o.Sample = map[string]any{"document": doc, "accepted": true, "stages": len(rs.Stages)}
		}
	}
	return o.Verdict != core.Violated
}

// c14CLI drives the real CLI: an error must be returned before setup runs.
func c14CLI(c *core.Case, o *core.Outcome) {
	var p c14Params
	c.Params(&p)
	r := c.Rng("cli")
	unknownDoc := strings.Replace(strings.Replace(c14ValidYAML, "max-duration: 1s", "max-duration: 80ms", 1), "scenario: verifScenario", "scenario: notRegistered", 1)
	unknownPath, _ := engine.TempYAML(unknownDoc)
	validPath, _ := engine.TempYAML(strings.Replace(c14ValidYAML, "max-duration: 1s", "max-duration: 80ms", 1))
	defer os.Remove(unknownPath)
	defer os.Remove(validPath)
	// command lines that every run of the check tries: each trigger's chart with nothing else given, the file trigger
	// without a file / with a plan for an unregistered scenario, commands without a trigger
	fixed := [][]string{
		{"chart", "file"}, {"chart", "file", "--chart-duration", "5s"}, {"chart", "file", validPath}, {"chart", "file", unknownPath},
		{"run", "file"}, {"run", "file", unknownPath}, {"run", "file", validPath, "extra"},
		{"chart", "constant"}, {"chart", "staged"}, {"chart", "ramp"}, {"chart", "gaussian"}, {"chart", "users"},
		{"chart", "ramp", "--start-rate", "1/s", "--end-rate", "10/s", "--ramp-duration", "0s"},
		{"chart"}, {"run"}, {"run", "users"}, {"chart", "nothing"}, {},
	}
	// charts of every trigger over no time at all, or less
	for _, tr := range []string{"constant", "staged", "ramp", "gaussian", "users"} {
		for _, cd := range []string{"0s", "-1s"} {
			if cd == "-1s" && tr != "constant" && tr != "gaussian" {
				continue
			}
			fixed = append(fixed, []string{"chart", tr, "--chart-duration", cd})
		}
	}
	// every trigger with otherwise valid flags and no worker at all
	for _, cv := range []string{"0", "-1"} {
		for _, tf := range [][]string{{"constant", "-r", "5/10ms"}, {"staged", "-s", "0s:1,10s:1"}, {"ramp", "-s", "1/10ms", "-e", "9/10ms", "-r", "100ms"},
			{"gaussian", "--volume", "1000", "--repeat", "1m", "--iteration-frequency", "10ms", "--peak", "30s", "--standard-deviation", "10s"}, {"users"}} {
			if cv == "-1" && tf[0] != "users" && tf[0] != "constant" {
				continue
			}
			fixed = append(fixed, append(append([]string{"run"}, tf...), "-d", "60ms", "--concurrency", cv, "verifScenario"))
		}
	}
	if p.Fixed {
		p.N = len(fixed)
	}
	for i := 0; i < p.N && o.Verdict != core.Violated; i++ {
		var setups, iters atomic.Int64
		scenario := func(t *f1testing.T) f1testing.RunFn {
			setups.Add(1)
			return func(t *f1testing.T) { iters.Add(1) }
		}
		mode := pick(r, "constant", "staged", "ramp", "gaussian", "users", "file")
		// one command line in five asks for the chart of the same trigger instead of a run (no scenario, no common flags)
		chart := r.IntN(5) == 0
		args := []string{"run", mode}
		if chart {
			args = []string{"chart", mode, "--chart-duration", pick(r, "5s", "10m", "0s", "1h")}
		}
		common := func() {
			if chart {
				return
			}
			args = append(args, "-d", pick(r, "60ms", "100ms", "0s", "-1s", "30ms"), "-c", pick(r, "1", "4", "0", "-2", "64"))
			if r.IntN(3) == 0 {
				args = append(args, "-i", pick(r, "0", "5", "100"))
			}
			if r.IntN(3) == 0 {
				args = append(args, "--max-failures-rate", pick(r, "0", "5", "100", "200"))
			}
		}
		switch mode {
		case "constant":
			args = append(args, "-r", pick(r, "5/10ms", "1/s", "10/", "1/.5s", "10/0s", "x", "0/s", "100/1ms"), "--distribution", pick(r, "none", "regular", "random", "bogus"), "-j", pick(r, "0", "10", "99"))
			common()
		case "staged":
			args = append(args, "-s", pick(r, "0s:1,10s:1", "0s:5,50ms:50", "x", "1s:1:1", "0s:1,10s:-91"), "-f", pick(r, "10ms", "1s", "0s", "-1s"), "--distribution", pick(r, "none", "regular", "random"))
			common()
		case "ramp":
			args = append(args, "-s", pick(r, "1/10ms", "0/s", "5/s", "10/"), "-e", pick(r, "9/10ms", "5/s", "1/s", "x"), "-r", pick(r, "100ms", "1s", "0s", "-1s"), "--distribution", pick(r, "none", "regular"))
			common()
		case "gaussian":
			args = append(args, "--volume", pick(r, "1000", "0", "100000"), "--repeat", pick(r, "1m", "10s", "0s"), "--iteration-frequency", pick(r, "10ms", "1s", "0s", "-1s"), "--peak", pick(r, "30s", "5s"), "--standard-deviation", pick(r, "10s", "0s", "1m"), "--distribution", pick(r, "none", "regular", "random"))
			common()
		case "users":
			common()
		case "file":
			doc, _ := c14GenYAML(r)
			// keep accepted plans short: the CLI really runs them
			doc = strings.ReplaceAll(strings.ReplaceAll(doc, ": 10m", ": 150ms"), ": 1h", ": 300ms")
			if r.IntN(3) == 0 {
				doc = strings.Replace(c14ValidYAML, "max-duration: 1s", "max-duration: 80ms", 1)
			}
			if r.IntN(6) == 0 {
				// a well-formed plan for a scenario the program has not registered
				doc = strings.Replace(strings.Replace(c14ValidYAML, "max-duration: 1s", "max-duration: 80ms", 1), "scenario: verifScenario", "scenario: notRegistered", 1)
			}
			path, err := engine.TempYAML(doc)
			if err != nil {
				o.Inconc("cannot write yaml: %v", err)
				return
			}
			defer os.Remove(path)
			switch r.IntN(8) {
			case 0:
				path = os.Getenv("TMPDIR") // a directory: opens, cannot be read
			case 1:
				path = path + ".does-not-exist"
			case 2:
				path = "/dev/null"
			case 3:
				path = ""
			}
			if !(chart && r.IntN(3) == 0) {
				// (a chart of the file trigger asked for without naming a file, one time in three)
				args = append(args, path)
			}
		}
		if mode != "file" && !chart {
			// the scenario argument: right, unknown, missing altogether, or one too many
			switch sc := pick(r, "verifScenario", "verifScenario", "verifScenario", "missingScenario", "", "verifScenario extra"); sc {
			case "":
			case "verifScenario extra":
				args = append(args, "verifScenario", "extra")
			default:
				args = append(args, sc)
			}
		}
		if p.Fixed {
			args = fixed[i]
			chart = len(args) > 0 && args[0] == "chart"
			mode = "fixed"
		}
		desc := fmt.Sprintf("%v", args)
		c14Log("cli", desc)
		o.Events++
		o.AddObs("inputs", 1)
		o.AddObs("cli_runs", 1)
		var err error
		done := make(chan struct{})
		go func() {
			defer close(done)
			defer func() {
				if pv := recover(); pv != nil {
					err = fmt.Errorf("PANIC: %v", pv)
				}
			}()
			err = f1.New().Add("verifScenario", scenario).ExecuteWithArgs(args)
		}()
		select {
		case <-done:
		case <-time.After(40 * time.Second):
			o.Violate("cli-hang:"+desc, "the CLI did not return within 40 s for %s", desc)
			return
		}
		if err != nil && strings.HasPrefix(err.Error(), "PANIC") {
			o.Violate("cli-panic:"+desc, "the CLI panicked: %v (%s)", err, desc)
			return
		}
		// a command line asking for no worker at all (or fewer) cannot yield a trigger with at least one: rejected before setup
		for k := 0; k+1 < len(args); k++ {
			if args[k] == "-c" || args[k] == "--concurrency" {
				if n, perr := strconv.Atoi(args[k+1]); perr == nil && n < 1 && setups.Load() > 0 {
					o.Violate("cli-no-worker:"+desc, "concurrency %d was accepted: setup ran %d times, %d iterations ran, the CLI returned %v (%s)", n, setups.Load(), iters.Load(), err, desc)
					return
				}
			}
		}
		if err != nil {
			o.AddObs("rejected", 1)
			// an input error must be reported before setup runs; a run that started may still fail for other reasons
			if setups.Load() > 0 && iters.Load() == 0 && !strings.Contains(err.Error(), "load test failed") {
				o.Violate("cli-late-error:"+desc, "setup ran and then the CLI returned the input error %v (%s)", err, desc)
				return
			}
			o.Sig("cli:%s:error:setup=%v", mode, setups.Load() > 0)
		} else {
			o.AddObs("accepted", 1)
			o.AddObs("accepted_and_run", 1)
			if p.Fixed && (len(args) < 3 || args[0] != "run") {
				// help texts and charts: nothing is run
				if setups.Load() != 0 {
					o.Violate("cli-setup:"+desc, "a command line that names no run executed setup %d times (%s)", setups.Load(), desc)
					return
				}
			} else if want := map[bool]int64{false: 1, true: 0}[chart]; setups.Load() != want {
				o.Violate("cli-setup:"+desc, "the CLI returned success but setup ran %d times (%s)", setups.Load(), desc)
				return
			}
			o.Sig("cli:%s:ok:chart=%v", mode, chart)
		}
		if o.Sample == nil {
			o.Sample = map[string]any{"args": args, "error": fmt.Sprint(err), "setups": setups.Load(), "iterations": iters.Load()}
		}
	}
	_ = math.Abs
	_ = pflag.ErrHelp
}
