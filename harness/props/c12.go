package props

import (
	"fmt"
	"math"
	"time"

	"github.com/form3tech-oss/f1/v2/internal/trigger/api"
	"github.com/form3tech-oss/f1/v2/verifharness/core"
)

// C12 — distributing a rate over sub-ticks neither creates nor loses iterations.

type c12Params struct {
	Sets  int `json:"sets"`
	MaxN  int `json:"max_n"`
	Probe int `json:"probe,omitempty"`
}

// extreme-domain probes (outside the stated domain N <= 1.7e6, rate <= 1e7 per cycle); see DESIGN.md F9
var c12Probes = []struct {
	N    int
	Rate int
}{
	{7, 957052444},
	{21_000_000, 1},
	{3, 2_000_000_000},
}

func init() {
	core.Register(&core.Property{
		ID: "C12",
		Rule: "cases are seeded batches of (distribution, interval, per-cycle rate sequence, random-source behaviour) sets run for >= 3 consecutive cycles; " +
			"a set is non-trivial when N >= 2 and some cycle's rate is not a multiple of N (regular) or > 0 (random); distinct = distinct (distribution, log2 N, remainder?, rate class, random-source kind) classes observed",
		Assumptions: []string{
			"domain: N = floor(interval/100ms) in [2, 36000] quick / [2, 1728000] thorough, rate per cycle in [0, 1e7]; beyond it only the fixed extreme-domain probes are replayed (known finding F9)",
			"random sources return non-negative values",
		},
		Gen: func(tier string, seed uint64) []core.Case {
			n, per, maxN := 144, 80, 36000
			if tier == "thorough" {
				n, per, maxN = 320, 100, 1_728_000
			}
			var cs []core.Case
			for i := 0; i < n; i++ {
				kind := []string{"regular", "random", "passthrough"}[i%3]
				if i%3 == 2 && i%6 != 2 {
					kind = "regular"
				}
				cs = append(cs, core.MkCase("C12", kind, i, seed, c12Params{Sets: per, MaxN: maxN}))
			}
			nl := 6
			if tier == "thorough" {
				nl = 40
			}
			for i := 0; i < nl; i++ {
				cs = append(cs, core.MkCase("C12", "long", i, seed, c12Params{}))
			}
			{
				for i := range c12Probes {
					cs = append(cs, core.MkCase("C12", "probe", i, seed, c12Params{Probe: i}))
				}
			}
			return cs
		},
		Kinds: map[string]core.RunFunc{
			"regular":     func(c *core.Case, o *core.Outcome) { c12Run(c, o, api.RegularDistribution) },
			"random":      func(c *core.Case, o *core.Outcome) { c12Run(c, o, api.RandomDistribution) },
			"passthrough": c12Pass,
			"probe":       c12Probe,
			"long":        c12Long,
		},
		Floors: map[string]int64{"sets_nontrivial": 500, "cycles": 3000},
	})
}

func c12GenN(r interface {
	Float64() float64
	IntN(int) int
}, maxN int) int {
	switch r.IntN(4) {
	case 0:
		return 2 + r.IntN(20)
	case 1:
		return 2 + r.IntN(600)
	default:
		n := int(2 * math.Exp(r.Float64()*math.Log(float64(maxN)/2)))
		if n < 2 {
			n = 2
		}
		if n > maxN {
			n = maxN
		}
		return n
	}
}

func c12GenRate(r interface {
	Float64() float64
	IntN(int) int
}, n int) (int, string) {
	if n < 2 {
		return []int{0, 1, 2, 10, 1 + r.IntN(5000)}[r.IntN(5)], "single-subtick"
	}
	switch r.IntN(8) {
	case 0:
		return 0, "zero"
	case 1:
		return 1, "one"
	case 2:
		return n * (1 + r.IntN(5)), "multiple"
	case 3:
		return n*(1+r.IntN(5)) + 1 + r.IntN(n-1), "multiple+rem"
	case 4:
		return 1 + r.IntN(n), "below-n"
	case 5:
		return 10_000_000, "max"
	case 6:
		return int(math.Exp(r.Float64() * math.Log(1e7))), "log"
	default:
		return r.IntN(2000), "small"
	}
}

func c12Run(c *core.Case, o *core.Outcome, dist api.DistributionType) {
	var p c12Params
	c.Params(&p)
	r := c.Rng(string(dist))
	budget := int64(6_000_000) // sub-ticks per case
	for si := 0; si < p.Sets && o.Verdict != core.Violated && budget > 0; si++ {
		n := c12GenN(r, p.MaxN)
		rem := time.Duration(0)
		if si == 0 && dist == api.RegularDistribution && (p.MaxN >= 1_000_000 || c.Rng("million").IntN(10) == 0) {
			// more than a million sub-ticks per cycle (intervals of 28-47 hours)
			n = 1_000_001 + r.IntN(700_000)
		} else if r.IntN(12) == 0 {
			// a single sub-tick per cycle: intervals strictly between 100 and 200 ms
			n = 1
			rem = time.Duration(1 + r.Int64N(int64(100*time.Millisecond)-1))
		} else if r.IntN(2) == 0 {
			rem = time.Duration(r.IntN(100)) * time.Millisecond
			if r.IntN(3) == 0 {
				rem += time.Duration(r.IntN(1000)) * time.Microsecond
				if rem >= 100*time.Millisecond {
					rem = 99 * time.Millisecond
				}
			}
		}
		interval := time.Duration(n)*100*time.Millisecond + rem
		cycles := 3 + r.IntN(4)
		if n > 1_000_000 {
			cycles = 2
		}
		rates := make([]int, cycles)
		class := ""
		nontrivial := false
		for i := range rates {
			var cl string
			rates[i], cl = c12GenRate(r, n)
			if i == 0 {
				class = cl
			}
			if dist == api.RegularDistribution && rates[i]%n != 0 {
				nontrivial = true
			}
			if dist == api.RandomDistribution && rates[i] > 0 {
				nontrivial = true
			}
		}
		calls := 0
		rateFn := func(time.Time) int {
			v := rates[calls%len(rates)]
			calls++
			return v
		}
		randKind := ""
		var randFn func(int) int
		if dist == api.RandomDistribution {
			switch r.IntN(6) {
			case 0:
				randKind = "zero"
				randFn = func(int) int { return 0 }
			case 1:
				randKind = "inrange"
				rr := core.Rng(c.Seed, c.ID, fmt.Sprint(si))
				randFn = func(n int) int { return rr.IntN(n) }
			case 2:
				randKind = "beyond"
				randFn = func(n int) int { return n + 1 + n/2 }
			case 3:
				randKind = "maxint"
				randFn = func(int) int { return math.MaxInt }
			case 4:
				randKind = "equal-n"
				randFn = func(n int) int { return n }
			default:
				randKind = "mixed"
				rr := core.Rng(c.Seed, c.ID, "mixed", fmt.Sprint(si))
				randFn = func(n int) int {
					switch rr.IntN(4) {
					case 0:
						return 0
					case 1:
						return math.MaxInt
					case 2:
						return n
					}
					return rr.IntN(n)
				}
			}
		}
		gotInterval, fn, err := api.NewDistribution(dist, interval, rateFn, randFn)
		desc := fmt.Sprintf("%s interval=%v N=%d rates=%v rand=%s timestamps=%d", dist, interval, n, rates, randKind, 0)
		if err != nil {
			o.Violate("dist-error:"+desc, "NewDistribution failed: %v (%s)", err, desc)
			return
		}
		if gotInterval != 100*time.Millisecond {
			o.Violate("dist-interval:"+desc, "distributed tick interval %v, want 100ms (%s)", gotInterval, desc)
			return
		}
		now := time.Unix(1_700_000_000, 0)
		// the timestamps handed to the function: exact 100 ms steps, frozen, late/dropped ticks, jittery
		tpat := r.IntN(5)
		for cy := 0; cy < cycles; cy++ {
			sum, mn, mx := 0, math.MaxInt, math.MinInt
			for k := 0; k < n; k++ {
				v := fn(now)
				switch tpat {
				case 0:
					now = now.Add(100 * time.Millisecond)
				case 1:
				case 2:
					now = now.Add(time.Duration(100+r.IntN(400)) * time.Millisecond)
				case 4:
					// now and then the clock is set back between two sub-ticks
					if r.IntN(7) == 0 {
						now = now.Add(-time.Duration(1+r.IntN(5000)) * time.Millisecond)
					} else {
						now = now.Add(100 * time.Millisecond)
					}
				default:
					now = now.Add(time.Duration(70+r.IntN(60)) * time.Millisecond)
				}
				if v < 0 {
					o.Violate("dist-negative:"+desc, "negative value %d at cycle %d sub-tick %d (%s)", v, cy, k, desc)
					return
				}
				sum += v
				if v < mn {
					mn = v
				}
				if v > mx {
					mx = v
				}
			}
			o.Events += int64(n)
			budget -= int64(n)
			if calls != cy+1 {
				o.Violate("dist-calls:"+desc, "underlying rate evaluated %d times after %d cycles (%s)", calls, cy+1, desc)
				return
			}
			if sum != rates[cy] {
				o.Violate(fmt.Sprintf("dist-sum:%s N=%d rate=%d", dist, n, rates[cy]), "cycle %d: sub-tick values sum to %d, underlying rate produced %d (%s)", cy, sum, rates[cy], desc)
				return
			}
			if dist == api.RegularDistribution && mx-mn > 1 {
				o.Violate(fmt.Sprintf("dist-even:N=%d rate=%d", n, rates[cy]), "cycle %d: regular distribution uneven, min %d max %d (%s)", cy, mn, mx, desc)
				return
			}
			o.AddObs("cycles", 1)
		}
		o.AddObs("sets", 1)
		if nontrivial {
			o.AddObs("sets_nontrivial", 1)
			o.Sig("%s:N=2^%d:rem=%v:rate=%s:rand=%s", dist, int(math.Log2(float64(n))), rem > 0, class, randKind)
		}
		if si == 0 {
			o.Sample = map[string]any{"set": desc, "cycles": cycles}
		}
	}
}

// c12Pass: intervals <= 100ms and distribution none pass through unchanged.
func c12Pass(c *core.Case, o *core.Outcome) {
	var p c12Params
	c.Params(&p)
	r := c.Rng("pass")
	for si := 0; si < p.Sets*5 && o.Verdict != core.Violated; si++ {
		dist := []api.DistributionType{api.NoneDistribution, api.RegularDistribution, api.RandomDistribution}[r.IntN(3)]
		var interval time.Duration
		if dist == api.NoneDistribution {
			interval = genDuration(r, false)
		} else {
			interval = time.Duration(1 + r.Int64N(int64(100*time.Millisecond)))
			if r.IntN(4) == 0 {
				interval = 100 * time.Millisecond
			}
		}
		seq := make([]int, 8)
		for i := range seq {
			seq[i], _ = c12GenRate(r, 10)
			if i%3 == 2 {
				// passing through unchanged holds for every value an int can hold
				seq[i] = []int{1024943419987, 1<<53 + 1, math.MaxInt64, 1<<62 + 12345, 999999999999}[r.IntN(5)]
			}
		}
		calls := 0
		rateFn := func(time.Time) int { v := seq[calls%len(seq)]; calls++; return v }
		gi, fn, err := api.NewDistribution(dist, interval, rateFn, func(int) int { return 0 })
		desc := fmt.Sprintf("%s interval=%v", dist, interval)
		if err != nil {
			o.Violate("pass-error:"+desc, "NewDistribution failed: %v (%s)", err, desc)
			return
		}
		if gi != interval {
			o.Violate("pass-interval:"+desc, "interval changed to %v (%s)", gi, desc)
			return
		}
		for i := range seq {
			v := fn(time.Unix(int64(i), 0))
			o.Events++
			if v != seq[i] || calls != i+1 {
				o.Violate("pass-value:"+desc, "evaluation %d returned %d (underlying %d, %d calls) (%s)", i, v, seq[i], calls, desc)
				return
			}
		}
		o.AddObs("passthrough_sets", 1)
		o.Sig("pass:%s:le100=%v", dist, interval <= 100*time.Millisecond)
	}
	// the random distribution with f1's own random source (nil) on the largest rates an int holds: integer arithmetic
	// throughout, so each cycle still adds up exactly and nothing is negative
	for _, rate := range []int{math.MaxInt64, math.MaxInt64 - 1, 1 << 62, 1, 0} {
		for _, n := range []int{2, 3, 10} {
			rate, n := rate, n
			desc := fmt.Sprintf("random distribution, default source, N=%d rate=%d", n, rate)
			_, fn, err := api.NewDistribution(api.RandomDistribution, time.Duration(n)*100*time.Millisecond, func(time.Time) int { return rate }, nil)
			if err != nil {
				o.Violate("random-extreme-error:"+desc, "NewDistribution failed: %v (%s)", err, desc)
				return
			}
			bad := func() (msg string) {
				defer func() {
					if pv := recover(); pv != nil {
						msg = fmt.Sprintf("panic: %v", pv)
					}
				}()
				for cyc := 0; cyc < 3; cyc++ {
					left := uint64(rate)
					for k := 0; k < n; k++ {
						v := fn(time.Unix(int64(cyc*n+k), 0))
						if v < 0 || uint64(v) > left {
							return fmt.Sprintf("cycle %d sub-tick %d requests %d with %d left of the cycle's %d", cyc, k, v, left, rate)
						}
						left -= uint64(v)
					}
					if left != 0 {
						return fmt.Sprintf("cycle %d adds up to %d less than its %d", cyc, left, rate)
					}
				}
				return ""
			}()
			if bad != "" {
				o.Violate("random-extreme:"+desc, "%s (%s)", bad, desc)
				return
			}
			o.Events += int64(3 * n)
		}
	}
	// an unknown distribution name must be an error, not a silent pass-through
	if _, _, err := api.NewDistribution("bogus", time.Second, func(time.Time) int { return 1 }, nil); err == nil {
		o.Violate("pass-bogus", "unknown distribution name accepted")
	}
	o.Sample = map[string]any{"sets": p.Sets * 5}
}

func c12Probe(c *core.Case, o *core.Outcome) {
	var p c12Params
	c.Params(&p)
	pr := c12Probes[p.Probe]
	interval := time.Duration(pr.N) * 100 * time.Millisecond
	_, fn, err := api.NewDistribution(api.RegularDistribution, interval, func(time.Time) int { return pr.Rate }, nil)
	if err != nil {
		o.Inconc("probe rejected: %v", err)
		return
	}
	now := time.Unix(1_700_000_000, 0)
	for cy := 0; cy < 2; cy++ {
		sum := 0
		for k := 0; k < pr.N; k++ {
			sum += fn(now)
		}
		o.Events += int64(pr.N)
		if sum != pr.Rate {
			o.Violate(fmt.Sprintf("regular N=%d rate=%d", pr.N, pr.Rate), "extreme-domain probe: cycle %d of N=%d sub-ticks sums to %d, underlying rate %d", cy, pr.N, sum, pr.Rate)
			break
		}
	}
	o.Sig("probe:N=%d:rate=%d", pr.N, pr.Rate)
	o.Sample = map[string]any{"probe_N": pr.N, "probe_rate": pr.Rate, "verdict": o.Verdict}
}

// c12Long runs one small-N set for very many consecutive cycles (1.5e7 sub-ticks): state that
// leaks from one cycle into the next only shows after millions of cycles.
func c12Long(c *core.Case, o *core.Outcome) {
	r := c.Rng("long")
	n := []int{3, 7, 9, 11, 13, 1200, 6, 30}[r.IntN(8)]
	dist := api.RegularDistribution
	if r.IntN(4) == 0 {
		dist = api.RandomDistribution
	}
	rates := []int{1, 1 + r.IntN(n), n + 1, 2}
	calls := 0
	rateFn := func(time.Time) int { v := rates[calls%len(rates)]; calls++; return v }
	rr := core.Rng(c.Seed, c.ID, "rand")
	_, fn, err := api.NewDistribution(dist, time.Duration(n)*100*time.Millisecond, rateFn, func(k int) int { return rr.IntN(k) })
	if err != nil {
		o.Inconc("NewDistribution: %v", err)
		return
	}
	desc := fmt.Sprintf("%s N=%d rates=%v long-run", dist, n, rates)
	now := time.Unix(1_700_000_000, 0)
	total := 15_000_000
	for cy := 0; cy*n < total; cy++ {
		sum, mn, mx := 0, math.MaxInt, math.MinInt
		for k := 0; k < n; k++ {
			v := fn(now)
			if v < 0 {
				o.Violate("long-negative:"+desc, "negative value at cycle %d (%s)", cy, desc)
				return
			}
			sum += v
			mn = min(mn, v)
			mx = max(mx, v)
		}
		want := rates[cy%len(rates)]
		if sum != want || calls != cy+1 {
			o.Violate(fmt.Sprintf("long-sum:%s N=%d", dist, n), "cycle %d of a long run: sub-tick values sum to %d, the underlying rate produced %d (evaluated %d times) (%s)", cy, sum, want, calls, desc)
			return
		}
		if dist == api.RegularDistribution && mx-mn > 1 {
			o.Violate(fmt.Sprintf("long-even:N=%d", n), "cycle %d: uneven regular distribution min %d max %d (%s)", cy, mn, mx, desc)
			return
		}
	}
	o.Events = int64(total)
	o.AddObs("cycles", int64(total/n))
	o.AddObs("long_run_subticks", int64(total))
	o.Sig("long:%s:N=%d", dist, n)
	o.Sample = map[string]any{"set": desc, "sub_ticks": total}
}
