package props

import (
	"fmt"
	"github.com/form3tech-oss/f1/v2/internal/trigger/api"
	"github.com/spf13/pflag"
	"math"
	"math/big"
	"math/rand/v2"
	"strings"
	"time"

	"github.com/form3tech-oss/f1/v2/internal/trigger/ramp"
	"github.com/form3tech-oss/f1/v2/internal/trigger/staged"
	"github.com/form3tech-oss/f1/v2/verifharness/core"
)

// C10 — staged and ramp profiles are the configured piecewise-linear shapes.
//
// Reference: exact rational interpolation of the generated stage list; the real rate functions
// are obtained through CalculateStagedRate / CalculateRampRate (jitter 0, distribution none).

type c10Params struct {
	Profiles int `json:"profiles"`
}

func init() {
	core.Register(&core.Property{
		ID: "C10",
		Rule: "cases are seeded batches of generated stage lists / ramps queried at generated non-decreasing offsets (every stage boundary and boundary±1ns included); " +
			"a profile is non-trivial when at least one query fell strictly inside a stage with different targets; distinct = distinct (kind, #stages, zero-length?, descending?, start-given?, ends-queried?) classes observed",
		Assumptions: []string{
			"durations >= 0, targets >= 0 (the property's domain)",
			"ramp: the value at exactly offset == ramp duration is not judged (end-rate or 0 both accepted)",
			"queries are non-decreasing, the first query defines the start unless a start time is given",
		},
		Gen: func(tier string, seed uint64) []core.Case {
			n, per := 120, 1000
			if tier == "thorough" {
				n, per = 800, 2500
			}
			var cs []core.Case
			for i := 0; i < n; i++ {
				kind := "staged"
				if i%4 == 3 {
					kind = "ramp"
				}
				cs = append(cs, core.MkCase("C10", kind, i, seed, c10Params{Profiles: per}))
			}
			return cs
		},
		Kinds: map[string]core.RunFunc{
			"staged": c10Staged,
			"ramp":   c10Ramp,
		},
		Floors: map[string]int64{"profiles_nontrivial": 1000, "boundary_queries": 1000},
	})
}

func genDuration(r *rand.Rand, allowZero bool) time.Duration {
	switch r.IntN(10) {
	case 9:
		// very short stages (steep slopes: many targets per nanosecond)
		if r.IntN(2) == 0 {
			return time.Duration(1+r.IntN(5000)) * time.Microsecond
		}
		return time.Duration(1 + r.IntN(2000))
	case 0:
		if allowZero {
			return 0
		}
		return time.Duration(1+r.IntN(1000)) * time.Millisecond
	case 1:
		return time.Duration(1+r.IntN(999)) * time.Millisecond
	case 2, 3:
		return time.Duration(1+r.IntN(120)) * time.Second
	case 4:
		return time.Duration(1+r.IntN(90)) * time.Minute
	case 5:
		return time.Duration(1+r.IntN(48)) * time.Hour
	case 6:
		return time.Duration(1 + r.Int64N(int64(48*time.Hour)))
	case 7:
		return time.Duration(1+r.IntN(50)) * 100 * time.Millisecond
	default:
		return time.Duration(1+r.IntN(20)) * time.Second
	}
}

func genTarget(r *rand.Rand) int {
	switch r.IntN(6) {
	case 0:
		return 0
	case 1:
		return r.IntN(10)
	case 2:
		return r.IntN(1000)
	case 3:
		return r.IntN(1_000_000)
	case 4:
		return 1_000_000
	default:
		return r.IntN(200)
	}
}

type c10Stage struct {
	D time.Duration
	S int
	E int
}

func c10Staged(c *core.Case, o *core.Outcome) {
	var p c10Params
	c.Params(&p)
	r := c.Rng("staged")
	for i := 0; i < p.Profiles && o.Verdict != core.Violated; i++ {
		n := 1 + r.IntN(6)
		stages := make([]c10Stage, n)
		parts := make([]string, n)
		prev := 0
		hasZero, hasDesc := false, false
		padded, previewed := false, false
		var total time.Duration
		for k := 0; k < n; k++ {
			d := genDuration(r, true)
			t := genTarget(r)
			stages[k] = c10Stage{D: d, S: prev, E: t}
			if d == 0 {
				hasZero = true
			}
			if t < prev {
				hasDesc = true
			}
			prev = t
			total += d
			sp := ""
			if r.IntN(3) == 0 {
				sp = " "
			}
			parts[k] = fmt.Sprintf("%s%s:%s%d", sp, d.String(), sp, t)
			if t >= 0 && r.IntN(5) == 0 {
				// decimal targets written with leading zeros are the same decimal numbers
				parts[k] = fmt.Sprintf("%s%s:%s%0*d", sp, d.String(), sp, len(fmt.Sprint(t))+1+r.IntN(3), t)
				padded = true
			}
		}
		stg := strings.Join(parts, ",")
		startGiven := r.IntN(4) == 0
		var startPtr *time.Time
		base := time.Date(2024, 3, 1+r.IntN(20), r.IntN(24), r.IntN(60), r.IntN(60), r.IntN(1e9), time.UTC)
		future := false
		if startGiven && r.IntN(3) == 0 {
			// a start that has not been reached yet by the wall clock (a run scheduled for later, synthetic instants)
			base = time.Date(2090+r.IntN(100), time.Month(1+r.IntN(12)), 1+r.IntN(28), r.IntN(24), r.IntN(60), r.IntN(60), r.IntN(1e9), time.UTC)
			future = true
		}
		if startGiven {
			b := base
			startPtr = &b
		} else if r.IntN(6) == 0 {
			// a clock whose origin is the zero time: the first query still defines the start
			base = time.Time{}
		}
		if startGiven && r.IntN(2) == 0 {
			// a preview of the same plan from the same start variable (as a dry run would), evaluated first
			if pv, perr := staged.CalculateStagedRate(0, time.Second, stg, "none", startPtr); perr == nil {
				pv.Rate(base.Add(total / 2))
				pv.Rate(base.Add(total + time.Hour))
				previewed = true
			}
		}
		rates, err := staged.CalculateStagedRate(0, time.Second, stg, "none", startPtr)
		if err != nil {
			o.Violate("staged-rejected:"+stg, "valid stages string %q rejected: %v", stg, err)
			return
		}
		o.Events++
		if rates.Duration != total {
			o.Violate("staged-duration:"+stg, "stages %q: reported total duration %v, sum of stage durations %v", stg, rates.Duration, total)
			return
		}
		// offsets: boundaries, boundaries±1ns, random interior points, points after the end
		var offs []time.Duration
		var cum time.Duration
		if !startGiven || r.IntN(2) == 0 {
			offs = append(offs, 0)
		}
		for _, s := range stages {
			if s.D > 0 {
				for q := r.IntN(4); q > 0; q-- {
					offs = append(offs, cum+time.Duration(r.Int64N(int64(s.D))))
				}
			}
			cum += s.D
			offs = append(offs, cum-1, cum, cum+1)
		}
		endsQueried := r.IntN(2) == 0
		if endsQueried {
			offs = append(offs, total+time.Duration(r.Int64N(int64(time.Hour))), total+48*time.Hour)
		}
		sortDurations(offs)
		if !startGiven {
			// the first query defines the start: make it offset 0
			for len(offs) > 0 && offs[0] < 0 {
				offs = offs[1:]
			}
			if len(offs) == 0 || offs[0] != 0 {
				offs = append([]time.Duration{0}, offs...)
			}
		} else {
			for len(offs) > 0 && offs[0] < 0 {
				offs = offs[1:]
			}
		}
		nontrivial := false
		lastStage, lastVal := -1, 0
		for _, off := range offs {
			v := rates.Rate(base.Add(off))
			o.Events++
			idx, exact := c10Exact(stages, off)
			if idx < 0 {
				o.AddObs("queries_after_end", 1)
				if v != 0 {
					o.Violate(fmt.Sprintf("staged-after-end:%s@%v", stg, off), "stages %q offset %v (total %v): got %d after all stages elapsed, want 0", stg, off, total, v)
					return
				}
				lastStage = idx
				continue
			}
			s := stages[idx]
			lo, hi := s.S, s.E
			if lo > hi {
				lo, hi = hi, lo
			}
			ef, _ := exact.Float64()
			if v < lo || v > hi {
				o.Violate(fmt.Sprintf("staged-range:%s@%v", stg, off), "stages %q offset %v: got %d outside stage %d targets [%d,%d] (exact %.4f)", stg, off, v, idx, lo, hi, ef)
				return
			}
			diff := new(big.Rat).Sub(new(big.Rat).SetInt64(int64(v)), exact)
			if diff.Abs(diff).Cmp(big.NewRat(1, 1)) > 0 {
				o.Violate(fmt.Sprintf("staged-exact:%s@%v", stg, off), "stages %q offset %v: got %d, exact interpolation %.6f (stage %d: %d->%d over %v)", stg, off, v, ef, idx, s.S, s.E, s.D)
				return
			}
			if idx == lastStage {
				if (s.E >= s.S && v < lastVal) || (s.E <= s.S && v > lastVal) {
					o.Violate(fmt.Sprintf("staged-monotone:%s@%v", stg, off), "stages %q offset %v: value %d after %d is not monotone within stage %d (%d->%d)", stg, off, v, lastVal, idx, s.S, s.E)
					return
				}
			}
			if s.S != s.E && exact.Cmp(new(big.Rat).SetInt64(int64(s.S))) != 0 {
				nontrivial = true
			}
			lastStage, lastVal = idx, v
		}
		o.AddObs("boundary_queries", int64(3*len(stages)))
		o.AddObs("profiles", 1)
		if nontrivial {
			o.AddObs("profiles_nontrivial", 1)
			o.Sig("staged:n=%d:zero=%v:desc=%v:startgiven=%v:ends=%v:padded=%v:previewed=%v:future=%v", n, hasZero, hasDesc, startGiven, endsQueried, padded, previewed, future)
		}
		if i == 0 {
			o.Sample = map[string]any{"stages": stg, "queries": len(offs), "total": total.String(), "start_given": startGiven}
		}
	}
}

// c10Exact returns the stage index holding the offset (−1 after the end) and the exact value.
func c10Exact(stages []c10Stage, off time.Duration) (int, *big.Rat) {
	var cum time.Duration
	for i, s := range stages {
		if off < cum+s.D {
			pos := big.NewRat(int64(off-cum), int64(s.D))
			val := new(big.Rat).Mul(pos, new(big.Rat).SetInt64(int64(s.E-s.S)))
			val.Add(val, new(big.Rat).SetInt64(int64(s.S)))
			return i, val
		}
		cum += s.D
	}
	return -1, nil
}

func sortDurations(d []time.Duration) {
	for i := 1; i < len(d); i++ {
		for j := i; j > 0 && d[j] < d[j-1]; j-- {
			d[j], d[j-1] = d[j-1], d[j]
		}
	}
}

func c10Ramp(c *core.Case, o *core.Outcome) {
	var p c10Params
	c.Params(&p)
	r := c.Rng("ramp")
	units := []time.Duration{10 * time.Millisecond, 100 * time.Millisecond, 250 * time.Millisecond, time.Second, 2 * time.Second, 30 * time.Second, time.Minute}
	for i := 0; i < p.Profiles && o.Verdict != core.Violated; i++ {
		unit := units[r.IntN(len(units))]
		s := r.IntN(1001)
		e := r.IntN(1001)
		for e == s {
			e = r.IntN(1001)
		}
		if r.IntN(8) == 0 {
			s = 0
		}
		if r.IntN(8) == 0 && s != 0 {
			e = 0
		}
		if s == e {
			e = s + 1 + r.IntN(50)
		}
		dur := unit + time.Duration(r.Int64N(int64(time.Hour)))
		if r.IntN(4) == 0 {
			dur = unit * time.Duration(1+r.IntN(100))
		}
		if r.IntN(12) == 0 {
			// ramps of several months (more nanoseconds than a float64 holds exactly)
			dur = time.Duration(2500+r.IntN(8000))*time.Hour + time.Duration(r.IntN(1000))
		} else if r.IntN(5) == 0 {
			// long, high-rate ramps
			dur = time.Duration(1+r.IntN(48)) * time.Hour
			s, e = r.IntN(2_000_001), r.IntN(2_000_001)
			if r.IntN(3) == 0 {
				s = 0
			}
		}
		if s == e {
			e = s + 1
		}
		us := unit.String()
		if unit == time.Second && r.IntN(2) == 0 {
			us = "s"
		}
		if unit == time.Minute && r.IntN(2) == 0 {
			us = "m"
		}
		sa, ea := fmt.Sprintf("%d/%s", s, us), fmt.Sprintf("%d/%s", e, us)
		rates, err := ramp.CalculateRampRate(sa, ea, "none", dur, 0)
		if err != nil {
			o.Violate("ramp-rejected:"+sa+">"+ea, "valid ramp %s -> %s over %v rejected: %v", sa, ea, dur, err)
			return
		}
		o.Events++
		if rates.IterationDuration != unit {
			o.Violate("ramp-unit:"+sa, "ramp %s: tick interval %v, want %v", sa, rates.IterationDuration, unit)
			return
		}
		rateFn := rates.Rate
		viaBuilder := ""
		if r.IntN(4) == 0 {
			// the same ramp through the command's builder, next to a --max-duration that is shorter, equal or longer:
			// the run stops early or late, the ramp stays the configured segment
			md := []time.Duration{dur / 3, dur, dur * 2, time.Second}[r.IntN(4)]
			if md <= 0 {
				md = time.Second
			}
			b := ramp.Rate()
			fs := pflag.NewFlagSet("run ramp", pflag.ContinueOnError)
			fs.DurationP("max-duration", "d", time.Second, "")
			fs.AddFlagSet(b.Flags)
			perr := fs.Parse([]string{"--start-rate", sa, "--end-rate", ea, "--ramp-duration", dur.String(), "--max-duration", md.String(), "--distribution", "none"})
			var trig *api.Trigger
			if perr == nil {
				trig, perr = b.New(fs)
			}
			if perr != nil || trig == nil || trig.DryRun == nil {
				o.Violate("ramp-builder:"+sa+">"+ea, "valid ramp %s -> %s over %v (max-duration %v) rejected by the command's builder: %v", sa, ea, dur, md, perr)
				return
			}
			rateFn = trig.DryRun
			viaBuilder = fmt.Sprintf(" via the run command's flags with --max-duration %v", md)
		}
		base := time.Date(2024, 5, 1+r.IntN(20), r.IntN(24), r.IntN(60), r.IntN(60), r.IntN(1e9), time.UTC)
		offs := []time.Duration{0}
		for q := 2 + r.IntN(10); q > 0; q-- {
			offs = append(offs, time.Duration(r.Int64N(int64(dur))))
		}
		offs = append(offs, dur-1, dur+1, dur+2, dur+3, dur+time.Duration(1+r.Int64N(int64(time.Hour))))
		sortDurations(offs)
		key := fmt.Sprintf("%s>%s/%v%s", sa, ea, dur, viaBuilder)
		last := 0
		nontrivial := false
		for qi, off := range offs {
			v := rateFn(base.Add(off))
			o.Events++
			if off > dur {
				if v != 0 {
					o.Violate("ramp-after-end:"+key, "ramp %s offset %v: got %d after the ramp duration, want 0", key, off, v)
					return
				}
				continue
			}
			exact := new(big.Rat).Mul(big.NewRat(int64(off), int64(dur)), new(big.Rat).SetInt64(int64(e-s)))
			exact.Add(exact, new(big.Rat).SetInt64(int64(s)))
			ef, _ := exact.Float64()
			lo, hi := s, e
			if lo > hi {
				lo, hi = hi, lo
			}
			if qi == 0 && v != s {
				o.Violate("ramp-start:"+key, "ramp %s: first query returned %d, want start rate %d", key, v, s)
				return
			}
			if v < lo || v > hi {
				o.Violate("ramp-range:"+key, "ramp %s offset %v: got %d outside [%d,%d]", key, off, v, lo, hi)
				return
			}
			if math.Abs(float64(v)-ef) > 1.0000001 {
				o.Violate("ramp-exact:"+key, "ramp %s offset %v: got %d, exact %.6f", key, off, v, ef)
				return
			}
			if qi > 0 && ((e > s && v < last) || (e < s && v > last)) {
				o.Violate("ramp-monotone:"+key, "ramp %s offset %v: %d after %d not monotone", key, off, v, last)
				return
			}
			if off > 0 && off < dur {
				nontrivial = true
			}
			last = v
		}
		o.AddObs("boundary_queries", 2)
		o.AddObs("profiles", 1)
		if nontrivial {
			o.AddObs("profiles_nontrivial", 1)
			o.Sig("ramp:unit=%v:desc=%v:tozero=%v", unit, e < s, e == 0 || s == 0)
		}
		if i == 0 {
			o.Sample = map[string]any{"ramp": key, "queries": len(offs)}
		}
	}
}
