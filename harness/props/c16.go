package props

import (
	"context"
	"fmt"
	"github.com/form3tech-oss/f1/v2/pkg/f1"
	f1metrics "github.com/form3tech-oss/f1/v2/pkg/f1/metrics"
	"github.com/prometheus/client_golang/prometheus"
	"io"
	"log/slog"
	"os"
	"sort"
	"strings"
	"sync"
	"sync/atomic"
	"time"

	"github.com/form3tech-oss/f1/v2/internal/metrics"
	"github.com/form3tech-oss/f1/v2/internal/run"
	f1testing "github.com/form3tech-oss/f1/v2/pkg/f1/testing"
	"github.com/form3tech-oss/f1/v2/verifharness/core"
	"github.com/form3tech-oss/f1/v2/verifharness/engine"
)

// C16 — exported metrics mirror the run and carry the right labels.

type c16RunPlan struct {
	Scenario  string `json:"scenario"`
	Mode      string `json:"mode"` // users | drops | interrupt (N iterations, then every worker is inside an iteration when the run is interrupted; those end 80 ms later)
	N         int    `json:"n"`
	FailEvery int    `json:"fail_every"`
	SetupFail bool   `json:"setup_fail"`
	SetupKind int    `json:"setup_kind"` // behaviour that makes the setup fail
	Tick      int    `json:"tick"`
	// NilRunFn: setup returns normally but hands back a nil iteration function
	NilRunFn bool `json:"nil_run_fn,omitempty"`
	// PreCancel: the context is already cancelled when Do is called
	PreCancel bool `json:"pre_cancel,omitempty"`
}

type c16Params struct {
	Labels map[string]string `json:"labels"`
	Runs   []c16RunPlan      `json:"runs"`
	Conc   int               `json:"conc"`
	Desc   string            `json:"desc"`
	// NoIterMetrics: the instance is built with iteration metrics disabled (setup metric only).
	NoIterMetrics bool `json:"no_iter_metrics,omitempty"`
	// PrepareAll: all runs of the case are constructed (NewRun) before the first one executes.
	PrepareAll bool `json:"prepare_all,omitempty"`
	// Gateway: the runs push to one (loopback) push gateway; what it holds after each run mirrors that run
	Gateway bool `json:"gateway,omitempty"`
	// SlowGateway: the gateway takes 1.2 s to process every push (and takes in nothing its sender has given up meanwhile)
	SlowGateway bool `json:"slow_gateway,omitempty"`
}

var c16Keys = []string{"region", "Region", "zone", "az", "team", "Team", "env", "build_id", "a", "b", "A", "z9", "_x", "cluster", "Cluster", "k8s_ns", "Stage", "RESULT", "Test", "Result"}
var c16Vals = []string{"", " lead", "trail ", " ", "\ttab\t", "a", "b", "z", "eu-west-1", "us", "ünïcödé ✓", "with space", "\"quoted\"", "line\nbreak", "prod", "zzz", "AAA", "0", "{}", "a=b,c=d"}
var c16Names = []string{"verifScenario", "alpha", "beta", "scénario ü", "with space", "a/b:c", "x", "Alpha"}

func init() {
	core.Register(&core.Property{
		ID: "C16",
		Rule: "whole runs on a private Prometheus registry with generated static-label maps (0-8 legal keys incl. keys differing only in case and values sorting opposite to keys, arbitrary UTF-8 values) and scenario names; 1-4 consecutive runs on one metrics instance with different or repeated scenario names, outcome mixes, setup failures and deliberately produced drops. After every Do (and again after a 250 ms settle) the registry is gathered and compared with the result and the label map. " +
			"non-trivial = a run with >= 2 of {success, fail, dropped} non-zero or a non-first run on the instance; distinct = distinct (#labels, case-colliding keys?, #runs, same/different names, drops?, setup-fail?) classes",
		Assumptions: []string{"label names are legal Prometheus names distinct from test/stage/result (registration panics otherwise by design of client_golang)"},
		Gen: func(tier string, seed uint64) []core.Case {
			r := core.Rng(seed, "C16", tier)
			n := 48
			if tier == "thorough" {
				n = 500
			}
			var cs []core.Case
			for i := 0; i < n; i++ {
				p := c16Params{Labels: map[string]string{}, Conc: pick(r, 1, 2, 4)}
				nl := r.IntN(9)
				if i%4 == 0 {
					// case-colliding pairs on purpose
					p.Labels["Region"] = c16Vals[r.IntN(len(c16Vals))]
					p.Labels["region"] = c16Vals[r.IntN(len(c16Vals))]
					if r.IntN(2) == 0 {
						p.Labels["Team"] = "t1"
						p.Labels["team"] = "t2"
					}
				}
				for len(p.Labels) < nl {
					p.Labels[c16Keys[r.IntN(len(c16Keys))]] = c16Vals[r.IntN(len(c16Vals))]
				}
				if i%6 == 3 {
					// dozens of static labels (one per deployment attribute): every size from 9 to 40 turns up over the seeds
					for want := 9 + r.IntN(32); len(p.Labels) < want; {
						p.Labels[fmt.Sprintf("attr_%02d", r.IntN(60))] = fmt.Sprintf("value-%d", len(p.Labels))
					}
				}
				if i%5 == 1 {
					// values sorting opposite to keys
					ks := engine.SortedKeys(p.Labels)
					for j, k := range ks {
						p.Labels[k] = fmt.Sprintf("v%02d", len(ks)-j)
					}
				}
				nr := 1 + r.IntN(4)
				same := r.IntN(2) == 0
				base := c16Names[r.IntN(len(c16Names))]
				for k := 0; k < nr; k++ {
					rp := c16RunPlan{Scenario: base, Mode: pick(r, "users", "users", "drops", "interrupt"), N: 5 + r.IntN(40), FailEvery: pick(r, 0, 1, 2, 3, 7), Tick: 3 + r.IntN(20)}
					if !same {
						rp.Scenario = c16Names[r.IntN(len(c16Names))]
					}
					if r.IntN(12) == 0 {
						rp.NilRunFn, rp.Mode = true, "users"
					} else if k > 0 && r.IntN(6) == 0 {
						// interrupted before it began: still a run of its own as far as the metrics go
						rp.PreCancel, rp.Mode = true, "users"
					} else if r.IntN(6) == 0 {
						rp.SetupFail = true
						rp.SetupKind = pick(r, engine.BFail, engine.BFailNow, engine.BError, engine.BRequire, engine.BPanicString, engine.BPanicError, engine.BNilMap, engine.BPanicInt, engine.BNilDeref)
					}
					p.Runs = append(p.Runs, rp)
				}
				p.Gateway = i%4 == 1
				p.SlowGateway = i%16 == 1
				p.NoIterMetrics = i%6 == 5
				p.PrepareAll = i%3 == 2
				p.Desc = fmt.Sprintf("labels=%d runs=%d same=%v itermetrics=%v prepareAll=%v slowGateway=%v", len(p.Labels), nr, same, !p.NoIterMetrics, p.PrepareAll, p.SlowGateway)
				cse := core.MkCase("C16", "runs", i, seed, p)
				cse.Race = true
				cse.Procs = pick(r, 2, 16)
				cse.TimeoutMS = 60000
				cs = append(cs, cse)
			}
			// the public API: static labels and a logger given to one f1 instance in either order, a real command
			// line, the process-wide registry (one fresh process per case: that registry is built once)
			for i := 0; i < 10; i++ {
				if i >= 8 {
					// a program that times a stage per endpoint (dozens of names) and whose first failures come late
					cse := core.MkCase("C16", "cli", i, seed, map[string]int{"order": i % 2, "stages": 60 + 15*(i-8)})
					cse.Solo = true
					cse.TimeoutMS = 60000
					cs = append(cs, cse)
					continue
				}
				// from the fifth on: no push gateway (the setup series is still recorded and labelled), or the program looks at
				// the metrics (pkg/f1/metrics GetMetrics) before its first command line
				cse := core.MkCase("C16", "cli", i, seed, map[string]int{"order": i % 2, "fail": i / 2 % 2, "nogw": []int{0, 0, 0, 0, 1, 1, 0, 1}[i], "early": []int{0, 0, 0, 0, 0, 0, 1, 1}[i]})
				cse.Solo = true
				cse.TimeoutMS = 60000
				cs = append(cs, cse)
			}
			return cs
		},
		Kinds:  map[string]core.RunFunc{"runs": c16Runs, "cli": c16CLI},
		Floors: map[string]int64{"runs_checked": 60, "runs_with_drops": 8, "later_runs_on_instance": 20, "series_checked": 100},
	})
}

// c16CLI: f1.New() with WithStaticMetrics and WithLogger in either order, `run users` through ExecuteWithArgs with a
// push gateway configured (which is what enables iteration metrics on the command line); the process-wide
// registry's setup and iteration series carry every static label with its value and the scenario name.
func c16CLI(c *core.Case, o *core.Outcome) {
	var pp map[string]int
	c.Params(&pp)
	labels := map[string]string{"team": "payments", "env": " staging", "Build_42": "ünïcödé ✓", "region": ""} // an empty value is a value
	if pp["nogw"] == 0 {
		gw := engine.NewGateway(200)
		defer gw.Close()
		os.Setenv("PROMETHEUS_PUSH_GATEWAY", gw.URL())
		defer os.Unsetenv("PROMETHEUS_PUSH_GATEWAY")
	}
	if pp["early"] == 1 {
		_ = f1metrics.GetMetrics()
	}
	quiet := slog.New(slog.NewTextHandler(io.Discard, nil))
	inst := f1.New()
	if pp["order"] == 0 {
		inst = inst.WithStaticMetrics(labels).WithLogger(quiet)
	} else {
		inst = inst.WithLogger(quiet).WithStaticMetrics(labels)
	}
	var n atomic.Int64
	inst.Add("cliScenario", func(t *f1testing.T) f1testing.RunFn {
		// a stage of the preparation timed through the setup handle: a stage timing, not another setup
		t.Time("prepare", func() {})
		setupT := t
		return func(t *f1testing.T) {
			if n.Load() == 0 {
				setupT.Time("warm-up", func() {})
			}
			k := n.Add(1)
			if ns := int64(pp["stages"]); ns > 0 {
				t.Time(fmt.Sprintf("endpoint-%d", k%ns), func() {})
				if k > ns+10 {
					t.Fail()
				}
				return
			}
			if k%3 == 0 {
				// a stage of the program's own: its timings are not iterations, whatever it is called
				t.Time([]string{"Iteration", "ITERATION", "iteration "}[k/3%3], func() {})
			}
			if pp["fail"] == 1 && k%2 == 0 {
				t.Fail()
			}
		}
	})
	total := 6
	args := []string{"run", "users", "-c", "2", "-i", "6", "-d", "30s", "--max-failures", "10", "cliScenario"}
	if ns := pp["stages"]; ns > 0 {
		total = ns + 25
		args = []string{"run", "users", "-c", "1", "-i", fmt.Sprint(total), "-d", "30s", "--max-failures", "100", "cliScenario"}
	}
	err := inst.ExecuteWithArgs(args)
	desc := fmt.Sprintf("order=%d fail=%d no-gateway=%d metrics-looked-at-first=%d stage-names=%d labels=%v", pp["order"], pp["fail"], pp["nogw"], pp["early"], pp["stages"], labels)
	if err != nil {
		o.Violate("cli-run:"+desc, "the run returned %v (%s)", err, desc)
		return
	}
	mfs, gerr := prometheus.DefaultGatherer.Gather()
	if gerr != nil {
		o.Violate("cli-gather:"+desc, "gathering the process-wide registry failed: %v", gerr)
		return
	}
	seen := 0
	var samples, setupSamples uint64
	perResult := map[string]uint64{}
	for _, mf := range mfs {
		if mf.GetName() != engine.IterationFamily && mf.GetName() != engine.SetupFamily {
			continue
		}
		for _, m := range mf.GetMetric() {
			got := map[string]string{}
			for _, lp := range m.GetLabel() {
				got[lp.GetName()] = lp.GetValue()
			}
			seen++
			o.AddObs("series_checked", 1)
			if mf.GetName() == engine.SetupFamily {
				setupSamples += m.GetSummary().GetSampleCount()
			}
			if mf.GetName() == engine.IterationFamily && got["stage"] == "iteration" {
				samples += m.GetSummary().GetSampleCount()
				perResult[got["result"]] += m.GetSummary().GetSampleCount()
			}
			if got["test"] != "cliScenario" {
				o.Violate("cli-name:"+desc, "series %v of %s is not named after the scenario (%s)", got, mf.GetName(), desc)
				return
			}
			for k, v := range labels {
				if gv, ok := got[k]; !ok || gv != v {
					o.Violate("cli-labels:"+desc, "series %v of %s does not carry the static label %s=%q given to WithStaticMetrics (%s)", got, mf.GetName(), k, v, desc)
					return
				}
			}
		}
	}
	if setupSamples != 1 {
		o.Violate("cli-setup-samples:"+desc, "the setup family holds %d samples after one run with one setup (the program also times two stages through the setup handle: those are stage timings) (%s)", setupSamples, desc)
		return
	}
	if pp["nogw"] == 1 {
		if seen < 1 {
			o.Violate("cli-series:"+desc, "expected the setup series in the process-wide registry; saw none (%s)", desc)
			return
		}
	} else if seen < 2 || samples != uint64(total) {
		o.Violate("cli-series:"+desc, "expected a setup series and iteration series with %d samples in the process-wide registry; saw %d series and %d iteration samples (%s)", total, seen, samples, desc)
		return
	}
	if ns := pp["stages"]; ns > 0 && pp["nogw"] == 0 && (perResult["success"] != uint64(ns+10) || perResult["fail"] != 15) {
		o.Violate("cli-late-failures:"+desc, "%d iterations passed and 15 failed (the first failure came after %d distinct stage names had been timed); the iteration metric holds success=%d fail=%d samples (%s)", ns+10, ns, perResult["success"], perResult["fail"], desc)
		return
	}
	o.Events += int64(seen) + n.Load()
	o.AddObs("runs_checked", 1)
	o.Sig("cli:order=%d:fail=%d:nogw=%d:early=%d:stages=%d", pp["order"], pp["fail"], pp["nogw"], pp["early"], pp["stages"])
}

func c16Runs(c *core.Case, o *core.Outcome) {
	var p c16Params
	c.Params(&p)
	var inst *metrics.Metrics
	anyDrops, anyCollide := false, false
	if _, ok := p.Labels["Region"]; ok {
		if _, ok2 := p.Labels["region"]; ok2 {
			anyCollide = true
		}
	}
	var gw *engine.Gateway
	if p.Gateway {
		gw = engine.NewGateway(200)
		// a gateway that is unavailable for a moment (the first push or two are refused) is a working gateway afterwards
		gw.RefuseFirst = c.Rng("refuse").IntN(3)
		if r0 := p.Runs[0]; !r0.SetupFail && !r0.NilRunFn && !r0.PreCancel && gw.RefuseFirst != 0 {
			// an ordinary first run: exactly its first push (the one after setup) falls into the outage
			gw.RefuseFirst = 1
		}
		if p.SlowGateway {
			gw.RefuseFirst, gw.SlowAll = 0, 1200*time.Millisecond
		}
		defer gw.Close()
	}
	var runCtx []context.Context
	var runEnd []func()
	var runStarted, runFailed []*atomic.Int64
	var runLog []*engine.Log
	type prepared struct {
		r  *engine.Run
		fr *run.Run
	}
	var pre []func() prepared
	var preDone []prepared
	for ri, rp := range p.Runs {
		l := engine.NewLog()
		ctx, cancel := context.WithCancel(context.Background())
		defer cancel()
		started, failedPlanned, blocked := new(atomic.Int64), new(atomic.Int64), new(atomic.Int64)
		gate := make(chan struct{})
		var once sync.Once
		open := func() { once.Do(func() { close(gate) }) }
		scenario := func(t *f1testing.T) f1testing.RunFn {
			if rp.SetupFail {
				engine.Behave(t, rp.SetupKind)
			}
			if rp.NilRunFn {
				return nil
			}
			if rp.FailEvery == 3 {
				// the handle's public Scenario field is the program's to write: the series stay named after the scenario
				t.Scenario = "renamed-in-setup"
			}
			return func(t *f1testing.T) {
				n := started.Add(1)
				if rp.FailEvery == 3 || rp.FailEvery == 7 {
					t.Scenario = "renamed-in-the-body"
				}
				if n%4 == 2 {
					// a cleanup of the iteration that fails: whatever that means for the iteration's outcome, the
					// result and the metric say the same
					t.Cleanup(func() { t.Fail() })
				}
				if rp.Mode == "drops" && n == 1 {
					<-gate
				}
				if rp.Mode == "interrupt" && n > int64(rp.N) {
					if blocked.Add(1) == int64(p.Conc) {
						go func() { cancel(); time.Sleep(80 * time.Millisecond); open() }()
					}
					<-gate
				}
				if rp.FailEvery > 0 && n%int64(rp.FailEvery) == 0 {
					failedPlanned.Add(1)
					t.Fail()
				}
			}
		}
		var spec engine.Spec
		var hooks *engine.Hooks
		if rp.Mode == "drops" {
			spec = engine.Spec{Mode: "custom", CustomIntervalUS: 4000, CustomRates: []int{rp.Tick}, Concurrency: 1, MaxDurationMS: 30000}
			hooks = &engine.Hooks{OnRate: func(k int, _ time.Time, v int) int {
				if k == 3 {
					open()
				}
				if k == 6 {
					cancel()
				}
				return v
			}}
		} else {
			spec = engine.Spec{Mode: "users", Concurrency: p.Conc, MaxDurationMS: 30000, MaxIterations: uint64(rp.N)}
			if rp.Mode == "interrupt" {
				spec.MaxIterations = 0
			}
		}
		spec.Scenario = rp.Scenario
		spec.Labels = p.Labels
		spec.IgnoreDropped = true
		spec.NoIterationMetrics = p.NoIterMetrics
		if gw != nil {
			spec.PushGateway = gw.URL()
		}
		_ = ri
		pre = append(pre, func() prepared {
			r, fr := engine.Prepare(spec, l, scenario, hooks, inst)
			if r.NewErr == nil {
				inst = r.Metrics
			}
			return prepared{r, fr}
		})
		runCtx = append(runCtx, ctx)
		runEnd = append(runEnd, func() { open(); cancel() })
		runStarted = append(runStarted, started)
		runFailed = append(runFailed, failedPlanned)
		runLog = append(runLog, l)
	}
	if p.PrepareAll {
		for _, f := range pre {
			preDone = append(preDone, f())
		}
	}
	for ri, rp := range p.Runs {
		var pr prepared
		if p.PrepareAll {
			pr = preDone[ri]
		} else {
			pr = pre[ri]()
		}
		started, failedPlanned, l := runStarted[ri], runFailed[ri], runLog[ri]
		if rp.PreCancel {
			runEnd[ri]()
		}
		r := engine.Do(runCtx[ri], pr.r, pr.fr)
		runEnd[ri]()
		if r.NewErr != nil {
			o.Inconc("harness: cannot build run: %v", r.NewErr)
			return
		}
		desc := fmt.Sprintf("%s run %d/%d scenario=%q mode=%s setupFail=%v(%s) labels=%v", p.Desc, ri+1, len(p.Runs), rp.Scenario, rp.Mode, rp.SetupFail, engine.BehaviourNames[rp.SetupKind], p.Labels)
		su, fa, dr := resultCounts(r)
		// a nil iteration function: every invocation fails inside f1 (the harness' body never runs); the setup
		// sample must agree with what the run itself says about its setup
		setupReportedFailed := r.Result != nil && r.Result.Error() != nil && strings.Contains(r.Result.Error().Error(), "setup")
		if !rp.NilRunFn && (int64(su+fa) != started.Load() || int64(fa) != failedPlanned.Load()) {
			o.Violate("result:"+desc, "result %d/%d/%d does not match ground truth started=%d failed=%d (%s)", su, fa, dr, started.Load(), failedPlanned.Load(), desc)
			return
		}
		check := func(when string) bool {
			fams, err := engine.Gather(r.Registry)
			if err != nil {
				o.Violate("gather:"+desc, "gather failed: %v", err)
				return false
			}
			got := map[string]uint64{}
			for _, s := range fams[engine.IterationFamily] {
				o.AddObs("series_checked", 1)
				if s.Labels["test"] != rp.Scenario {
					o.Violate("mixed:"+desc, "%s: iteration series of scenario %q (%d samples) present after a run of %q: earlier runs are mixed in (%s)", when, s.Labels["test"], s.Count, rp.Scenario, desc)
					return false
				}
				for k, v := range p.Labels {
					if gv, ok := s.Labels[k]; !ok || gv != v {
						o.Violate("labels:"+desc, "%s: iteration series %v does not carry static label %s=%q (got %q, present=%v) (%s)", when, s.Labels, k, v, gv, ok, desc)
						return false
					}
				}
				if len(s.Labels) != len(p.Labels)+3 {
					o.Violate("labelset:"+desc, "%s: iteration series carries %d labels, expected test, stage, result and %d static ones: %v", when, len(s.Labels), len(p.Labels), s.Labels)
					return false
				}
				if s.Labels["stage"] == "iteration" {
					got[s.Labels["result"]] += s.Count
				}
			}
			if p.NoIterMetrics {
				if n := got["success"] + got["fail"] + got["dropped"]; n != 0 {
					o.Violate("disabled:"+desc, "%s: iteration metrics are disabled on this instance but %d samples were exported (%s)", when, n, desc)
					return false
				}
			} else if got["success"] != su || got["fail"] != fa || got["dropped"] != dr {
				o.Violate("counts:"+desc, "%s: iteration metric holds success=%d fail=%d dropped=%d samples, the final result reports %d/%d/%d (%s)", when, got["success"], got["fail"], got["dropped"], su, fa, dr, desc)
				return false
			}
			var setupSamples uint64
			for _, s := range fams[engine.SetupFamily] {
				o.AddObs("series_checked", 1)
				setupSamples += s.Count
				wantRes := "success"
				if rp.SetupFail || (rp.NilRunFn && setupReportedFailed) {
					wantRes = "fail"
				}
				if s.Labels["test"] != rp.Scenario || s.Labels["result"] != wantRes {
					o.Violate("setup-label:"+desc, "%s: setup series %v, expected test=%q result=%s (%s)", when, s.Labels, rp.Scenario, wantRes, desc)
					return false
				}
				for k, v := range p.Labels {
					if s.Labels[k] != v {
						o.Violate("setup-labels:"+desc, "%s: setup series %v does not carry %s=%q (%s)", when, s.Labels, k, v, desc)
						return false
					}
				}
			}
			if setupSamples != 1 {
				o.Violate("setup-count:"+desc, "%s: setup metric holds %d samples, expected exactly 1 (%s)", when, setupSamples, desc)
				return false
			}
			return true
		}
		if !check("at return") {
			return
		}
		if gw != nil {
			n, held, bad := gw.Pushes()
			wantS, wantF, wantD := su, fa, dr
			if p.NoIterMetrics {
				wantS, wantF, wantD = 0, 0, 0
			}
			if n == 0 && gw.RefuseFirst == 1 && ri == 0 && !rp.SetupFail && !rp.PreCancel && !rp.NilRunFn {
				o.Violate("gateway-after-outage:"+desc, "the gateway refused the run's first push (503) and accepted everything after it, yet it never received the finished run's metrics: the result is %d/%d/%d (%s)", wantS, wantF, wantD, desc)
				return
			} else if n == 0 && gw.RefuseFirst > 0 {
				// every push of this run fell into the gateway's outage: nothing to compare
				o.AddObs("gateway_outage_runs", 1)
			} else if n == 0 || bad > 0 || held["success"] != wantS || held["fail"] != wantF || held["dropped"] != wantD {
				o.Violate("gateway:"+desc, "after this run the push gateway (%d pushes so far, %d unreadable) holds success=%d fail=%d dropped=%d for the job, the run's result is %d/%d/%d: what is exported mixes in an earlier run or misses this one (%s)", n, bad, held["success"], held["fail"], held["dropped"], wantS, wantF, wantD, desc)
				return
			}
			if n > 0 {
				o.AddObs("gateway_states_checked", 1)
			}
		}
		time.Sleep(250 * time.Millisecond)
		if !check("250ms after return") {
			return
		}
		o.Events += started.Load() + int64(l.Len())
		o.AddObs("runs_checked", 1)
		if dr > 0 {
			o.AddObs("runs_with_drops", 1)
			anyDrops = true
		}
		if ri > 0 {
			o.AddObs("later_runs_on_instance", 1)
		}
		if rp.SetupFail {
			if su+fa != 0 {
				o.Violate("setupfail-iterations:"+desc, "iterations ran after a failed setup")
				return
			}
		}
	}
	names := map[string]bool{}
	for _, rp := range p.Runs {
		names[rp.Scenario] = true
	}
	ks := make([]string, 0)
	for k := range p.Labels {
		ks = append(ks, k)
	}
	sort.Strings(ks)
	o.Sig("labels=%d:collide=%v:runs=%d:names=%d:drops=%v:itermetrics=%v:prepareAll=%v", len(p.Labels), anyCollide, len(p.Runs), len(names), anyDrops, !p.NoIterMetrics, p.PrepareAll)
	o.Sample = map[string]any{"labels": p.Labels, "runs": p.Runs}
}
