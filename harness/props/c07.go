package props

import (
	"context"
	"fmt"
	"strings"
	"sync"
	"time"

	"github.com/form3tech-oss/f1/v2/internal/metrics"
	"github.com/form3tech-oss/f1/v2/pkg/f1/scenarios"
	f1testing "github.com/form3tech-oss/f1/v2/pkg/f1/testing"
	"github.com/form3tech-oss/f1/v2/verifharness/core"
	"github.com/form3tech-oss/f1/v2/verifharness/engine"
)

// C07 — failures and panics are contained in their iteration and classified correctly.

type c07Params struct {
	Spec    engine.Spec `json:"spec"`
	Kinds   []int       `json:"kinds"` // failing kinds used by the plan (pass is always mixed in)
	Barrier bool        `json:"barrier"`
	// SetupHandle: passing iterations with id%3==0 mark failure on the handle captured in setup, which is not
	// their own; they and every other iteration still pass or fail by their own plan
	SetupHandle bool `json:"setup_handle,omitempty"`
	// SlowSink: every "recovered panic" record takes 15 ms to write (a slow terminal or log pipe)
	SlowSink bool `json:"slow_sink,omitempty"`
	// Timed: every second iteration performs its behaviour inside a t.Time(...) stage
	Timed bool `json:"timed,omitempty"`
	// CleanupFaults: two iterations in three register a cleanup that fails, stops or panics; that is after their own
	// outcome was taken and says nothing about the next iteration on the worker
	CleanupFaults bool   `json:"cleanup_faults,omitempty"`
	Desc          string `json:"desc"`
}

func c07Plan(seed uint64, id uint64, kinds []int) int {
	h := (id*0x9E3779B97F4A7C15 + seed) ^ (id << 7)
	h ^= h >> 29
	h *= 0xBF58476D1CE4E5B9
	h ^= h >> 32
	if h%5 < 2 {
		return engine.BPass
	}
	return kinds[(h>>8)%uint64(len(kinds))]
}

func init() {
	core.Register(&core.Property{
		ID: "C07",
		Rule: "whole runs (users and rate-driven modes, limit N so that ids 1..N all run) whose body behaviour is planned per iteration id: pass or one of 25 failing behaviours (every failure API incl. Error(nil)/Fatal(nil) and FailNow/require raised through the handle captured in setup, failed assert/require, behaviours inside t.Time stages, a disabled logger, panics with error/string/int/struct/nil values, runtime errors, an error with a permissive Is method). " +
			"Oracles: result and metric counts equal the plan's ground truth, T.Failed() is false at every body entry, process and workers survive (cyclic-barrier rounds in users mode). non-trivial = the run contained >= 1 failing behaviour followed by a later iteration on the same handle; distinct = distinct (mode, behaviour set, barrier?, GOMAXPROCS) classes",
		Assumptions: []string{"worker survival is bounded progress: a barrier round that does not fill within 10 s is a violation (the only thing that can be missing is a worker that stopped taking work)"},
		Gen: func(tier string, seed uint64) []core.Case {
			r := core.Rng(seed, "C07", tier)
			var cs []core.Case
			i := 0
			add := func(mode string, kinds []int, barrier bool, name string) {
				c := pick(r, 1, 2, 4, 8)
				if barrier {
					c = pick(r, 2, 4, 8)
				}
				N := uint64(c * (6 + r.IntN(10)))
				var spec engine.Spec
				if mode == "users" {
					spec = engine.Spec{Mode: "users", Concurrency: c, MaxDurationMS: 60000}
				} else if mode == "filespan" {
					N = uint64(c * (40 + r.IntN(20)))
					spec = engine.FileSpanSpec(c, N)
				} else {
					spec = engine.RateSpec(mode, c, 5, c)
				}
				spec.MaxIterations = N
				spec.IgnoreDropped = true
				if mode != "filespan" {
					// registered through CombineScenarios in a third of the cases
					spec.Combine = pick(r, 0, 0, 2)
				}
				p := c07Params{Spec: spec, Kinds: kinds, Barrier: barrier, Desc: fmt.Sprintf("mode=%s c=%d N=%d kinds=%s barrier=%v combine=%d", mode, c, N, name, barrier, spec.Combine)}
				cse := core.MkCase("C07", "run", i, seed, p)
				i++
				cse.Race = true
				cse.Procs = pick(r, 1, 2, 16)
				cse.TimeoutMS = 60000
				cs = append(cs, cse)
			}
			var all []int
			for kd := 1; kd < engine.NumBehaviours; kd++ {
				all = append(all, kd)
			}
			modes := []string{"users", "constant", "staged", "ramp", "gaussian", "custom"}
			// single-behaviour plans localise a misclassified kind
			for kd := 1; kd < engine.NumBehaviours; kd++ {
				add(modes[kd%2], []int{kd}, false, engine.BehaviourNames[kd])
				if tier == "thorough" {
					for _, m := range modes {
						add(m, []int{kd}, false, engine.BehaviourNames[kd])
					}
				}
			}
			// a guarded helper that panics and a function that stops without waiting for it (plain flavour: see the behaviour)
			for k := 0; k < map[string]int{"quick": 2, "thorough": 6}[tier]; k++ {
				add(modes[k%len(modes)], []int{engine.BHelperPanicThenFailNow}, false, engine.BehaviourNames[engine.BHelperPanicThenFailNow])
				last := &cs[len(cs)-1]
				last.Race = false
				var hp c07Params
				last.Params(&hp)
				// (a run whose workers get stuck ends by its duration and is judged on what it reports)
				hp.Spec.MaxDurationMS, hp.Spec.CompletionMS = 2500, 500
				last.P = core.MustJSON(hp)
			}
			nmix := 12
			if tier == "thorough" {
				nmix = 120
			}
			for k := 0; k < nmix; k++ {
				add(modes[k%len(modes)], all, false, "all")
			}
			nb := 6
			if tier == "thorough" {
				nb = 40
			}
			for k := 0; k < nb; k++ {
				add("users", all, true, "all")
			}
			// iterations that outlive a config-file stage: the next stage's pool starts while they run
			nsp := 6
			if tier == "thorough" {
				nsp = 40
			}
			for k := 0; k < nsp; k++ {
				add("filespan", all, false, "all")
			}
			// scenario logs go nowhere: a logger whose handler is disabled for every level, with --verbose
			// (so that the iteration handles log through it); marking failures must not depend on logging
			nq := 4
			if tier == "thorough" {
				nq = 30
			}
			for k := 0; k < nq; k++ {
				add(modes[k%len(modes)], all, false, "all")
				last := &cs[len(cs)-1]
				var qp c07Params
				last.Params(&qp)
				qp.Spec.QuietLogger, qp.Spec.Verbose = true, true
				qp.Desc += " quiet-logger+verbose"
				last.P = core.MustJSON(qp)
			}
			// panic values of every shape reported through f1's own log handlers (JSON as F1_LOG_FORMAT=json selects, and text)
			for k, kd := range []int{engine.BPanicStruct, engine.BPanicSlice, engine.BPanicMap, engine.BPanicInt, engine.BPanicError, engine.BPanicSliceError, engine.BPanicString, engine.BNilDeref, engine.BPanicBadStringer, engine.BPanicEmpty} {
				if tier == "quick" && k >= 6 {
					break
				}
				for _, format := range []string{"json", "text"} {
					if tier == "quick" && format == "text" && k%2 == 1 {
						continue
					}
					add(modes[kd%len(modes)], []int{kd}, false, engine.BehaviourNames[kd])
					last := &cs[len(cs)-1]
					var qp c07Params
					last.Params(&qp)
					qp.Spec.F1Logs, qp.Spec.Verbose = format, k%2 == 0
					qp.Desc += " f1-" + format + "-logs"
					last.P = core.MustJSON(qp)
				}
			}
			// one behaviour per case for the failure APIs that log, with the logger disabled (a mixed plan of 20+
			// behaviours over a dozen iterations may not contain the one that matters)
			for _, kd := range []int{engine.BError, engine.BErrorf, engine.BFatal, engine.BFatalf, engine.BAssert, engine.BRequire, engine.BOtherRequire} {
				if tier == "quick" && kd == engine.BOtherRequire {
					continue
				}
				add(modes[kd%len(modes)], []int{kd}, false, engine.BehaviourNames[kd])
				last := &cs[len(cs)-1]
				var qp c07Params
				last.Params(&qp)
				qp.Spec.QuietLogger, qp.Spec.Verbose = true, true
				qp.Desc += " quiet-logger+verbose"
				last.P = core.MustJSON(qp)
			}
			// panics whose report takes long to write: the mark must be in place when the function is over
			for k, kd := range []int{engine.BHelperPanic, engine.BPanicString, engine.BNilDeref, engine.BPanicError} {
				if tier == "quick" && k >= 2 {
					continue
				}
				add(modes[kd%len(modes)], []int{kd}, false, engine.BehaviourNames[kd])
				last := &cs[len(cs)-1]
				var sp c07Params
				last.Params(&sp)
				sp.SlowSink = true
				sp.Spec.Verbose = true
				sp.Desc += " slow-sink"
				last.P = core.MustJSON(sp)
			}
			// behaviours performed inside a t.Time(...) stage
			nt := 6
			if tier == "thorough" {
				nt = 40
			}
			for k := 0; k < nt; k++ {
				kinds, name := all, "all"
				if k%2 == 0 {
					// the non-stopping marks one at a time
					kd := []int{engine.BFail, engine.BError, engine.BErrorf, engine.BAssert}[(k/2)%4]
					kinds, name = []int{kd}, engine.BehaviourNames[kd]
				}
				add(modes[k%len(modes)], kinds, false, name)
				last := &cs[len(cs)-1]
				var tp c07Params
				last.Params(&tp)
				tp.Timed = true
				tp.Desc += " inside-t.Time"
				last.P = core.MustJSON(tp)
			}
			// a body that marks failure through the handle it captured in setup: not a mark on any iteration
			nsh := 4
			if tier == "thorough" {
				nsh = 30
			}
			for k := 0; k < nsh; k++ {
				add(modes[k%len(modes)], all, false, "all")
				last := &cs[len(cs)-1]
				var sp c07Params
				last.Params(&sp)
				sp.SetupHandle = true
				sp.Desc += " fail-through-setup-handle"
				last.P = core.MustJSON(sp)
			}
			// iteration cleanups that fail, stop or panic: the iteration keeps its own outcome and the next one on the worker
			// starts clean
			ncf := 6
			if tier == "thorough" {
				ncf = 40
			}
			for k := 0; k < ncf; k++ {
				if k%2 == 0 {
					add(modes[k%len(modes)], []int{engine.BPass}, false, "pass")
				} else {
					add(modes[k%len(modes)], all, false, "all")
				}
				last := &cs[len(cs)-1]
				var cp c07Params
				last.Params(&cp)
				cp.CleanupFaults = true
				cp.Desc += " failing-iteration-cleanups"
				last.P = core.MustJSON(cp)
			}
			return cs
		},
		Kinds:  map[string]core.RunFunc{"run": c07Run},
		Floors: map[string]int64{"failing_iterations": 300, "reuse_after_failure": 100, "barrier_rounds": 20},
	})
}

type cyclicBarrier struct {
	mu      sync.Mutex
	parties int
	count   int
	gen     chan struct{}
	rounds  int
	stalled bool
}

func (b *cyclicBarrier) await(timeout time.Duration) bool {
	b.mu.Lock()
	if b.stalled {
		b.mu.Unlock()
		return false
	}
	b.count++
	if b.count == b.parties {
		b.count = 0
		b.rounds++
		close(b.gen)
		b.gen = make(chan struct{})
		b.mu.Unlock()
		return true
	}
	g := b.gen
	b.mu.Unlock()
	select {
	case <-g:
		return true
	case <-time.After(timeout):
		b.mu.Lock()
		defer b.mu.Unlock()
		select {
		case <-g:
			return true
		default:
		}
		if !b.stalled {
			b.stalled = true
			close(b.gen)
		}
		return false
	}
}

func c07Run(c *core.Case, o *core.Outcome) {
	var p c07Params
	c.Params(&p)
	// a quarter of the plain cases run twice: same registered scenario object, same metrics instance
	reps := 1
	if !p.Barrier && p.Spec.Mode != "file" && c.Rng("reps").IntN(4) == 0 {
		reps = 2
	}
	reg := scenarios.New()
	var inst *metrics.Metrics
	base := p.Desc
	for rep := 1; rep <= reps && o.Verdict == core.Held; rep++ {
		p.Desc = fmt.Sprintf("%s run %d/%d", base, rep, reps)
		inst = c07Once(c, o, p, reg, inst)
	}
}

func c07Once(c *core.Case, o *core.Outcome, p c07Params, reg *scenarios.Scenarios, inst *metrics.Metrics) (ret *metrics.Metrics) {
	k := engine.NewTracker()
	l := engine.NewLog()
	if p.SlowSink {
		l.OutDelay = func(text string) {
			if strings.Contains(text, "recovered panic") {
				time.Sleep(15 * time.Millisecond)
			}
		}
	}
	ctx, cancel := context.WithCancel(context.Background())
	defer cancel()
	seed := c.Rng("plan").Uint64()
	bar := &cyclicBarrier{parties: p.Spec.Concurrency, gen: make(chan struct{})}
	var mu sync.Mutex
	lastKindOnHandle := map[*f1testing.T]int{}
	reuseAfterFailure := 0
	arrivedAtStall := 0
	setupHandleMarks := 0
	if p.Timed {
		metrics.Init(true) // T.Time records through the process-wide instance
	}
	defer engine.OtherHandle.Store(nil)
	scenario := func(setupT *f1testing.T) f1testing.RunFn {
		engine.OtherHandle.Store(setupT)
		return func(t *f1testing.T) {
			defer k.Enter(t)()
			id := engine.IDOf(t)
			kind := c07Plan(seed, id, p.Kinds)
			if p.SetupHandle && kind == engine.BPass && id%3 == 0 {
				setupT.Fail()
				mu.Lock()
				setupHandleMarks++
				mu.Unlock()
			}
			if p.CleanupFaults && id%3 != 0 {
				fk := 1 + int(id/3)%4
				t.Cleanup(func() { cleanupFault(t, fk) })
			}
			mu.Lock()
			if lk, ok := lastKindOnHandle[t]; ok && lk != engine.BPass {
				reuseAfterFailure++
			}
			lastKindOnHandle[t] = kind
			mu.Unlock()
			if p.Barrier {
				if !bar.await(10 * time.Second) {
					mu.Lock()
					arrivedAtStall++
					mu.Unlock()
					cancel()
					return
				}
			}
			if p.Spec.Mode == "file" {
				// non-stopping failures are marked first and the body then outlives its stage, so the
				// mark has to survive whatever the next stage's pool does; stopping ones come last
				if engine.Stops(kind) {
					engine.SpanSleep(id)
					engine.Behave(t, kind)
				} else {
					engine.Behave(t, kind)
					engine.SpanSleep(id)
				}
				return
			}
			if p.Timed && id%2 == 0 {
				t.Time("stage", func() { engine.Behave(t, kind) })
				return
			}
			engine.Behave(t, kind)
		}
	}
	r := engine.Execute(ctx, p.Spec, l, scenario, &engine.Hooks{Registry: reg}, inst)
	if r.NewErr != nil {
		o.Inconc("harness: cannot build run: %v", r.NewErr)
		return
	}
	ret = r.Metrics
	S := uint64(k.Started.Load())
	o.Events += int64(S) + int64(l.Len())
	if n := engine.HelperSignalsLost.Swap(0); n > 0 {
		o.Violate("helper-signal-lost:"+p.Desc, "%d bodies waited 10 s for the completion signal of a helper goroutine guarded by CheckResults(t, done) that had ended through FailNow: the signal never came (%s)", n, p.Desc)
		return
	}
	if p.Barrier && bar.stalled {
		o.Violate("survival:"+p.Desc, "a barrier round of %d workers did not fill within 10 s after %d complete rounds: a worker stopped taking work after a fault (%d distinct handles seen) (%s)", bar.parties, bar.rounds, k.Handles(), p.Desc)
		return
	}
	if pr := k.Problems(); len(pr) > 0 {
		o.Violate("confinement:"+p.Desc, "%s (%s)", joinProblems(pr), p.Desc)
		return
	}
	if S != p.Spec.MaxIterations && len(p.Kinds) == 1 && p.Kinds[0] == engine.BHelperPanicThenFailNow {
		// the run ended by its duration: every iteration function that ended is reported - if not by the result (taken
		// when the run gave up waiting), then at least by the iteration metric a little later
		time.Sleep(300 * time.Millisecond)
		ended := k.Started.Load() - k.Inflight.Load()
		if fams, gerr := engine.Gather(r.Registry); gerr == nil {
			ic := engine.IterationCounts(fams)
			if rec := int64(ic["success"] + ic["fail"]); rec < ended {
				o.Violate("survival-unreported:"+p.Desc, "%d iteration functions were invoked and ended (every one of them stopped by FailNow after a guarded helper goroutine of its own had panicked); 300 ms after the run only %d of them have been reported, and the run started %d of its %d iterations before its max-duration ended it: workers stopped after such an iteration (%s)", ended, rec, S, p.Spec.MaxIterations, p.Desc)
				return
			}
		}
	}
	if S != p.Spec.MaxIterations {
		o.Inconc("run did not execute ids 1..N (S=%d N=%d) (%s)", S, p.Spec.MaxIterations, p.Desc)
		return
	}
	var wantFail, wantPass uint64
	byKind := map[int]int{}
	for id := uint64(1); id <= S; id++ {
		kd := c07Plan(seed, id, p.Kinds)
		byKind[kd]++
		if engine.Fails(kd) {
			wantFail++
		} else {
			wantPass++
		}
	}
	su, fa, _ := resultCounts(r)
	kindsDesc := ""
	for kd, n := range byKind {
		kindsDesc += fmt.Sprintf(" %s×%d", engine.BehaviourNames[kd], n)
	}
	if k.TaintSeen.Load() > 0 {
		o.Violate("taint:"+p.Desc, "%d iterations started with T.Failed()==true: a previous failure leaked into a later iteration on the same handle (%s; plan:%s)", k.TaintSeen.Load(), p.Desc, kindsDesc)
		return
	}
	if su != wantPass || fa != wantFail {
		o.Violate("classify:"+p.Desc, "result reports %d successful / %d failed, the plan's ground truth is %d / %d (%s; plan:%s)", su, fa, wantPass, wantFail, p.Desc, kindsDesc)
		return
	}
	fams, err := engine.Gather(r.Registry)
	if err != nil {
		o.Violate("gather:"+p.Desc, "gathering metrics failed: %v", err)
		return
	}
	ic := engine.IterationCounts(fams)
	if ic["success"] != wantPass || ic["fail"] != wantFail {
		o.Violate("classify-metrics:"+p.Desc, "metrics carry success=%d fail=%d, ground truth %d / %d (%s; plan:%s)", ic["success"], ic["fail"], wantPass, wantFail, p.Desc, kindsDesc)
		return
	}
	o.AddObs("failing_iterations", int64(wantFail))
	o.AddObs("reuse_after_failure", int64(reuseAfterFailure))
	o.AddObs("barrier_rounds", int64(bar.rounds))
	o.AddObs("marks_through_setup_handle", int64(setupHandleMarks))
	if reuseAfterFailure > 0 {
		name := "all"
		if len(p.Kinds) == 1 {
			name = engine.BehaviourNames[p.Kinds[0]]
		}
		o.Sig("mode=%s:kinds=%s:barrier=%v:procs=%d:setuphandle=%v:timed=%v:quiet=%v:cleanupfaults=%v", p.Spec.Mode, name, p.Barrier, c.Procs, p.SetupHandle, p.Timed, p.Spec.QuietLogger, p.CleanupFaults)
	}
	o.Sample = map[string]any{"case": p.Desc, "plan": kindsDesc, "result_success": su, "result_failed": fa, "reuse_after_failure": reuseAfterFailure, "barrier_rounds": bar.rounds}
	return ret
}
