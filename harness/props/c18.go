package props

import (
	"context"
	"fmt"
	"runtime"
	"strings"
	"sync"
	"sync/atomic"
	"time"

	"go.uber.org/goleak"

	"github.com/form3tech-oss/f1/v2/internal/raterun"
	"github.com/form3tech-oss/f1/v2/verifharness/core"
	"github.com/form3tech-oss/f1/v2/verifharness/engine"
)

// C18 — the periodic progress runner fires only while running; quiescent after Stop.

type c18Sched struct {
	DelayMS int `json:"delay_ms"`
	FreqMS  int `json:"freq_ms"`
}

type c18Params struct {
	Scheds     []c18Sched `json:"scheds"`
	FnUS       int        `json:"fn_us"`     // duration of the function (0 = instant)
	RestartsMS []int      `json:"restarts"`  // offsets after Start at which Restart is called
	EndMS      int        `json:"end_ms"`    // when the run ends
	End        string     `json:"end"`       // stop | cancel | cancel-then-stop
	StartLagMS int        `json:"start_lag"` // wait between New and Start
	Script     string     `json:"script"`    // "" | blocked-stop | parked-dispatch | cancel-blocked-stop | restart-rearm
	Desc       string     `json:"desc"`
}

func init() {
	core.Register(&core.Property{
		ID: "C18",
		Rule: "component cases on the real raterun.Runner: generated schedule lists (1-3 schedules, distinct frequencies 2-40 ms, start delays), function durations 0 / shorter / longer than the tick, Restart / Stop / cancel placed by seed; every call and every invocation (begin/end, frequency argument) is logged. " +
			"Oracles: no invocation before Start; the k-th invocation of a run of one frequency begins no earlier than anchor + k*frequency (timers never fire early); after Stop returned no invocation is in progress and none begins later; no runner goroutine remains after Stop or cancel (goleak). " +
			"Scripted: function blocked when Stop is called; runner parked at the dispatch hook with a due tick when Stop is called; parent context cancelled and then Stop with the function in flight; Restart during the first schedule re-arms the next schedule's start delay. " +
			"non-trivial = >= 3 invocations and the ending happened with an invocation in flight or due, or a scripted schedule formed; distinct = distinct (#schedules, fn duration class, restarts?, ending, script) classes",
		Assumptions: []string{
			"the start delay of the first schedule counts from New (the timer is created there), so New's call time is the anchor",
			"restart-rearm is judged only when >= 20 dispatches happened with the restart message pending (otherwise inconclusive): select picks uniformly among ready cases",
		},
		Gen: func(tier string, seed uint64) []core.Case {
			r := core.Rng(seed, "C18", tier)
			n := 60
			if tier == "thorough" {
				n = 600
			}
			var cs []core.Case
			for i := 0; i < n; i++ {
				p := c18Params{End: pick(r, "stop", "stop", "cancel", "cancel-then-stop"), EndMS: 80 + r.IntN(250), StartLagMS: pick(r, 0, 0, 5, 30)}
				ns := 1 + r.IntN(3)
				used := map[int]bool{}
				for k := 0; k < ns; k++ {
					f := 2 + r.IntN(39)
					for used[f] {
						f = 2 + r.IntN(39)
					}
					used[f] = true
					d := 30 + r.IntN(90)
					if k == 0 {
						d = pick(r, 0, 0, 5, 20)
						if i%6 == 5 {
							// the run ends long before the first schedule's start delay has elapsed
							d = pick(r, 3000, 60000, 3600000)
						}
					}
					p.Scheds = append(p.Scheds, c18Sched{d, f})
				}
				p.FnUS = pick(r, 0, 0, 300, p.Scheds[0].FreqMS*500, p.Scheds[0].FreqMS*2500)
				for k := r.IntN(3); k > 0; k-- {
					p.RestartsMS = append(p.RestartsMS, 10+r.IntN(p.EndMS))
				}
				p.Desc = fmt.Sprintf("scheds=%v fn=%dus restarts=%v end=%s@%dms lag=%dms", p.Scheds, p.FnUS, p.RestartsMS, p.End, p.EndMS, p.StartLagMS)
				cse := core.MkCase("C18", "gen", i, seed, p)
				cse.Race = i%2 == 0
				cse.Procs = pick(r, 1, 2, 16)
				cse.TimeoutMS = 60000
				cs = append(cs, cse)
			}
			for i, s := range []string{"blocked-stop", "parked-dispatch", "cancel-blocked-stop", "restart-rearm", "restart-from-last", "stop-at-once", "double-stop", "long-blocked-stop", "zero-delay-middle", "equal-frequency-neighbours", "unsorted-delays", "restarts-during-report", "restart-at-start", "restart-before-first-delay", "restart-after-stop", "overrun-then-switch", "slow-then-fast", "restart-goes-to-first"} {
				reps := 2
				if tier == "thorough" {
					reps = 8
				}
				for rep := 0; rep < reps; rep++ {
					p := c18Params{Script: s, Scheds: []c18Sched{{0, 5}, {300, 20}}, Desc: "script=" + s}
					if s == "restart-from-last" {
						p.Scheds = []c18Sched{{0, 5}, {150, 20}}
					}
					if s == "zero-delay-middle" {
						p.Scheds = []c18Sched{{0, 5}, {0, 7}, {900, 3}}
					}
					if s == "equal-frequency-neighbours" {
						// two neighbours with the same frequency are still two schedules: the third starts after both delays
						p.Scheds = []c18Sched{{0, 10}, {400, 10}, {400, 3}}
					}
					if s == "unsorted-delays" {
						// start delays are relative to the previous schedule, in list order, whatever their sizes
						p.Scheds = []c18Sched{{0, 10}, {600, 7}, {100, 3}}
					}
					if s == "restart-at-start" {
						p.Scheds = []c18Sched{{0, 5}}
					}
					if s == "restart-goes-to-first" {
						// the first schedule has a real start delay of its own (2.5 s); a Restart while the second one is active goes
						// back to the first schedule, not to the wait before it
						p.Scheds = []c18Sched{{2500, 30}, {300, 4000}}
					}
					if s == "slow-then-fast" {
						// a schedule whose period is far longer than the start delay of its successor never fires at all
						p.Scheds = []c18Sched{{0, 4000 + 500*rep}, {80, 15}}
						if rep%2 == 1 {
							p.Scheds = []c18Sched{{0, 20}, {60, 5000}, {90, 10}}
						}
					}
					if s == "overrun-then-switch" {
						p.Scheds = []c18Sched{{0, 20}, {250, 50}}
					}
					if s == "restart-before-first-delay" {
						// the first schedule is due after 400 ms; a Restart at once starts it at once
						p.Scheds = []c18Sched{{400, 100}, {250, 10}}
					}
					if s == "long-blocked-stop" && rep > 0 {
						continue // 6.5 s each: one per tier run
					}
					cse := core.MkCase("C18", "script", i*10+rep, seed, p)
					cse.Race = rep%2 == 0
					cse.Solo = true
					cse.TimeoutMS = 60000
					cs = append(cs, cse)
				}
			}
			return cs
		},
		Kinds:  map[string]core.RunFunc{"gen": c18Gen, "script": c18Script},
		Floors: map[string]int64{"invocations": 500, "stops_checked": 20, "scripts_formed": 6, "goleak_checks": 30},
		HangViolation: func(c *core.Case, dump string) (bool, string, string) {
			if strings.Contains(dump, "raterun.(*Runner).Stop") && !strings.Contains(dump, "c18fn") {
				return true, "stop-never-returns", "Stop is blocked although the run function is not executing"
			}
			return false, "", ""
		},
	})
}

type c18Inv struct {
	begin, end time.Duration
	beginSeq   int64
	endSeq     int64
	freq       time.Duration
}

type c18Rec struct {
	l        *engine.Log
	mu       sync.Mutex
	invs     []c18Inv
	inflight atomic.Int64
	fnUS     int
	gate     chan struct{} // when non-nil the function blocks on it
	entered  chan struct{}
	once     sync.Once
}

func (rc *c18Rec) c18fn(freq time.Duration) {
	rc.inflight.Add(1)
	b := rc.l.Now()
	bs := rc.l.Add("fn.begin", "", "", int64(freq), "")
	rc.mu.Lock()
	idx := len(rc.invs)
	rc.invs = append(rc.invs, c18Inv{begin: b, beginSeq: bs, freq: freq})
	rc.mu.Unlock()
	if rc.entered != nil {
		rc.once.Do(func() { close(rc.entered) })
	}
	if rc.gate != nil {
		<-rc.gate
	} else if rc.fnUS > 0 {
		time.Sleep(time.Duration(rc.fnUS) * time.Microsecond)
	}
	e := rc.l.Now()
	rc.inflight.Add(-1)
	es := rc.l.Add("fn.end", "", "", int64(freq), "")
	rc.mu.Lock()
	rc.invs[idx].end = e
	rc.invs[idx].endSeq = es
	rc.mu.Unlock()
}

func c18Schedules(p *c18Params) []raterun.Schedule {
	var out []raterun.Schedule
	for _, s := range p.Scheds {
		out = append(out, raterun.Schedule{StartDelay: time.Duration(s.DelayMS) * time.Millisecond, Frequency: time.Duration(s.FreqMS) * time.Millisecond})
	}
	return out
}

// c18CheckCadence applies the sound lower bounds to the invocation log.
func c18CheckCadence(o *core.Outcome, p *c18Params, invs []c18Inv, tNew, tStart time.Duration, firstRestart time.Duration, desc string) bool {
	idx := map[time.Duration]int{}
	for i, s := range p.Scheds {
		idx[time.Duration(s.FreqMS)*time.Millisecond] = i
	}
	var anchor time.Duration
	var curFreq time.Duration = -1
	k := 0
	for i, in := range invs {
		j, ok := idx[in.freq]
		if !ok {
			o.Violate("freq-arg:"+desc, "invocation %d carries frequency %v which is not in the schedule list (%s)", i, in.freq, desc)
			return false
		}
		if in.begin < tStart {
			o.Violate("before-start:"+desc, "invocation %d began at %v, before Start was called at %v (%s)", i, in.begin, tStart, desc)
			return false
		}
		if in.freq != curFreq {
			curFreq = in.freq
			k = 0
			anchor = 0
			if i > 0 {
				anchor = invs[i-1].begin
			}
			if firstRestart < 0 || in.begin < firstRestart {
				var st time.Duration
				for q := 0; q <= j; q++ {
					st += time.Duration(p.Scheds[q].DelayMS) * time.Millisecond
				}
				if tNew+st > anchor {
					anchor = tNew + st
				}
			}
		}
		k++
		if in.begin < anchor+time.Duration(k)*in.freq {
			o.Violate("cadence:"+desc, "invocation %d (number %d of a run at frequency %v) began at %v, earlier than the run's earliest possible start %v + %d x %v: the function fired more than once per tick or before the schedule's start delay (%s)", i, k, in.freq, in.begin, anchor, k, in.freq, desc)
			return false
		}
		if i > 0 && invs[i-1].end > in.begin {
			o.Violate("overlap:"+desc, "invocation %d began before invocation %d ended (%s)", i, i-1, desc)
			return false
		}
	}
	return true
}

func c18Leak(o *core.Outcome, opt goleak.Option, desc string) bool {
	err := goleak.Find(opt)
	o.AddObs("goleak_checks", 1)
	if err != nil && strings.Contains(err.Error(), "raterun.") {
		o.Violate("leak:"+desc, "a goroutine of the runner remains after Stop/cancel: %v (%s)", err, desc)
		return false
	}
	return true
}

func c18Gen(c *core.Case, o *core.Outcome) {
	var p c18Params
	c.Params(&p)
	opt := goleak.IgnoreCurrent()
	l := engine.NewLog()
	rc := &c18Rec{l: l, fnUS: p.FnUS}
	tNew := l.Now()
	runner, err := raterun.New(rc.c18fn, c18Schedules(&p))
	if err != nil {
		o.Inconc("harness: New failed: %v", err)
		return
	}
	if p.StartLagMS > 0 {
		time.Sleep(time.Duration(p.StartLagMS) * time.Millisecond)
	}
	ctx, cancel := context.WithCancel(context.Background())
	defer cancel()
	tStart := l.Now()
	l.Add("start.call", "", "", 0, "")
	runner.Start(ctx)
	l.Add("start.return", "", "", 0, "")
	firstRestart := time.Duration(-1)
	base := time.Now()
	restarts := append([]int{}, p.RestartsMS...)
	sortInts(restarts)
	for _, at := range restarts {
		if at >= p.EndMS {
			continue
		}
		time.Sleep(time.Until(base.Add(time.Duration(at) * time.Millisecond)))
		if firstRestart < 0 {
			firstRestart = l.Now()
		}
		l.Add("restart.call", "", "", 0, "")
		runner.Restart()
		l.Add("restart.return", "", "", 0, "")
	}
	time.Sleep(time.Until(base.Add(time.Duration(p.EndMS) * time.Millisecond)))
	var stopReturnSeq int64
	inflightAtEnd := rc.inflight.Load()
	switch p.End {
	case "stop":
		l.Add("stop.call", "", "", 0, "")
		if !c18BoundedStop(o, runner, rc, p.Desc) {
			return
		}
		if n := rc.inflight.Load(); n != 0 {
			o.Violate("stop-inflight:"+p.Desc, "Stop returned while the function was executing (%d in flight) (%s)", n, p.Desc)
			return
		}
		stopReturnSeq = l.Add("stop.return", "", "", 0, "")
	case "cancel":
		l.Add("cancel", "", "", 0, "")
		rc.mu.Lock()
		n0 := len(rc.invs)
		rc.mu.Unlock()
		cancel()
		// as with Stop: the cancellation is noticed within a few dispatches
		for w := 0; w < 100; w++ {
			time.Sleep(20 * time.Millisecond)
			rc.mu.Lock()
			n := len(rc.invs) - n0
			rc.mu.Unlock()
			if n >= 40 {
				o.Violate("cancel-ignored:"+p.Desc, "the runner's context was cancelled and the function was invoked %d more times: the runner never looks at the cancellation (%s)", n, p.Desc)
				return
			}
			if rc.inflight.Load() == 0 && w >= 2 {
				break
			}
		}
	case "cancel-then-stop":
		l.Add("cancel", "", "", 0, "")
		cancel()
		l.Add("stop.call", "", "", 0, "")
		if !c18BoundedStop(o, runner, rc, p.Desc) {
			return
		}
		if n := rc.inflight.Load(); n != 0 {
			o.Violate("stop-inflight:"+p.Desc, "Stop (after cancellation) returned while the function was executing (%d in flight) (%s)", n, p.Desc)
			return
		}
		stopReturnSeq = l.Add("stop.return", "", "", 0, "")
	}
	// settle: long enough for several ticks of every schedule
	time.Sleep(120 * time.Millisecond)
	rc.mu.Lock()
	invs := append([]c18Inv{}, rc.invs...)
	rc.mu.Unlock()
	o.Events = int64(l.Len())
	o.AddObs("invocations", int64(len(invs)))
	if stopReturnSeq != 0 {
		o.AddObs("stops_checked", 1)
		for i, in := range invs {
			if in.beginSeq > stopReturnSeq {
				o.Violate("after-stop:"+p.Desc, "invocation %d began after Stop had returned (%s)", i, p.Desc)
				return
			}
			if in.endSeq == 0 || in.endSeq > stopReturnSeq {
				o.Violate("stop-inflight:"+p.Desc, "invocation %d was still executing when Stop returned (%s)", i, p.Desc)
				return
			}
		}
	}
	if !c18CheckCadence(o, &p, invs, tNew, tStart, firstRestart, p.Desc) {
		return
	}
	if !c18Leak(o, opt, p.Desc) {
		return
	}
	seen := map[time.Duration]bool{}
	for _, in := range invs {
		seen[in.freq] = true
	}
	if len(invs) >= 3 {
		fc := "instant"
		if p.FnUS > 0 {
			fc = "short"
			if p.FnUS >= p.Scheds[0].FreqMS*1000 {
				fc = "long"
			}
		}
		o.Sig("gen:scheds=%d:fn=%s:restarts=%v:end=%s:inflightAtEnd=%v:freqsSeen=%d", len(p.Scheds), fc, len(p.RestartsMS) > 0, p.End, inflightAtEnd > 0, len(seen))
	}
	o.Sample = map[string]any{"case": p.Desc, "invocations": len(invs), "frequencies_seen": len(seen), "in_flight_at_end": inflightAtEnd}
}

// c18BoundedStop calls Stop and waits for it; Stop not returning within 15 s although the function is not
// executing is the bounded-progress violation of "Stop returns once the runner is quiescent".
func c18BoundedStop(o *core.Outcome, runner *raterun.Runner, rc *c18Rec, desc string) bool {
	done := make(chan struct{})
	count := func() int {
		rc.mu.Lock()
		defer rc.mu.Unlock()
		return len(rc.invs)
	}
	n0 := count()
	go func() { runner.Stop(); close(done) }()
	deadline := time.After(15 * time.Second)
	tick := time.NewTicker(20 * time.Millisecond)
	defer tick.Stop()
	for {
		select {
		case <-done:
			return true
		case <-tick.C:
			// a pending Stop competes with due ticks for the runner's attention and wins each round with
			// probability 1/2 at least: 40 further invocations mean it never gets its turn
			if n := count() - n0; n >= 40 {
				o.Violate("stop-starved:"+desc, "Stop was called and had not returned after %d further invocations of the function: the runner keeps dispatching ticks and never looks at the stop request (%s)", n, desc)
				return false
			}
		case <-deadline:
			if rc.inflight.Load() == 0 {
				o.Violate("stop-hangs:"+desc, "Stop did not return within 15 s although the function is not executing (%s)", desc)
				return false
			}
			deadline = time.After(15 * time.Second)
		}
	}
}

func sortInts(a []int) {
	for i := 1; i < len(a); i++ {
		for j := i; j > 0 && a[j] < a[j-1]; j-- {
			a[j], a[j-1] = a[j-1], a[j]
		}
	}
}

func c18Script(c *core.Case, o *core.Outcome) {
	var p c18Params
	c.Params(&p)
	opt := goleak.IgnoreCurrent()
	l := engine.NewLog()
	key := "script:" + p.Script
	ctx, cancel := context.WithCancel(context.Background())
	defer cancel()
	stopInGoroutine := func(runner *raterun.Runner, rc *c18Rec) (chan struct{}, *atomic.Int64) {
		done := make(chan struct{})
		var inflightAtReturn atomic.Int64
		go func() {
			l.Add("stop.call", "", "", 0, "")
			runner.Stop()
			inflightAtReturn.Store(rc.inflight.Load())
			l.Add("stop.return", "", "", 0, "")
			close(done)
		}()
		return done, &inflightAtReturn
	}
	switch p.Script {
	case "blocked-stop", "cancel-blocked-stop":
		rc := &c18Rec{l: l, gate: make(chan struct{}), entered: make(chan struct{})}
		runner, _ := raterun.New(rc.c18fn, c18Schedules(&p))
		runner.Start(ctx)
		select {
		case <-rc.entered:
		case <-time.After(10 * time.Second):
			o.Inconc("function never invoked")
			cancel()
			return
		}
		if p.Script == "cancel-blocked-stop" {
			cancel()
			time.Sleep(5 * time.Millisecond)
		}
		done, infl := stopInGoroutine(runner, rc)
		select {
		case <-done:
			close(rc.gate)
			o.Violate(key, "Stop returned while the function was executing (in flight at return: %d)", infl.Load())
			return
		case <-time.After(150 * time.Millisecond):
		}
		close(rc.gate)
		select {
		case <-done:
		case <-time.After(10 * time.Second):
			o.Violate(key+"-hang", "Stop did not return within 10 s after the function finished")
			return
		}
		if infl.Load() != 0 {
			o.Violate(key, "function in flight when Stop returned")
			return
		}
	case "equal-frequency-neighbours", "unsorted-delays":
		rc := &c18Rec{l: l}
		tNew := l.Now()
		runner, _ := raterun.New(rc.c18fn, c18Schedules(&p))
		runner.Start(ctx)
		time.Sleep(550 * time.Millisecond)
		runner.Stop()
		last := p.Scheds[len(p.Scheds)-1]
		due := time.Duration(p.Scheds[1].DelayMS+last.DelayMS) * time.Millisecond
		rc.mu.Lock()
		invs := append([]c18Inv{}, rc.invs...)
		rc.mu.Unlock()
		for i, in := range invs {
			if in.freq == time.Duration(last.FreqMS)*time.Millisecond && in.begin < tNew+due {
				o.Violate(key, "schedules %v: invocation %d ran at the last schedule's frequency %v after New, before the start delays before it (%v in all) had elapsed", p.Scheds, i, in.begin-tNew, due)
				return
			}
		}
		if len(invs) < 5 {
			o.Inconc("too few invocations (%d)", len(invs))
			return
		}
		o.AddObs("invocations", int64(len(invs)))
	case "restart-goes-to-first":
		rc := &c18Rec{l: l}
		runner, _ := raterun.New(rc.c18fn, c18Schedules(&p))
		first := time.Duration(p.Scheds[0].FreqMS) * time.Millisecond
		stopHiccups := hiccups()
		runner.Start(ctx)
		// 2.5 s start delay + 300 ms of the first schedule + a little of the second
		time.Sleep(time.Duration(p.Scheds[0].DelayMS+p.Scheds[1].DelayMS+150) * time.Millisecond)
		rc.mu.Lock()
		before := len(rc.invs)
		rc.mu.Unlock()
		runner.Restart()
		tRestart := l.Now()
		seen := false
		for deadline := time.Now().Add(1200 * time.Millisecond); time.Now().Before(deadline) && !seen; {
			time.Sleep(10 * time.Millisecond)
			rc.mu.Lock()
			for _, in := range rc.invs[before:] {
				if in.freq == first && in.begin > tRestart {
					seen = true
				}
			}
			rc.mu.Unlock()
		}
		runner.Stop()
		worst := stopHiccups()
		o.AddObs("invocations", int64(before))
		if before < 3 {
			o.Inconc("the first schedule was hardly observed before the restart (%d invocations)", before)
			return
		}
		if !seen {
			if worst > 300*time.Millisecond {
				o.Inconc("the machine stalled for %v during the script", worst)
				return
			}
			o.Violate(key, "schedules %v: Restart was called while the second schedule was active; in the 1.2 s after it the function was never invoked at the first schedule's frequency %v (it had been invoked %d times before; longest hiccup of this process %v): the runner did not go back to the first schedule", p.Scheds, first, before, worst)
			return
		}
	case "slow-then-fast":
		// the successor of a slow schedule takes over after its own start delay, whether or not the slow one has fired yet
		rc := &c18Rec{l: l}
		runner, _ := raterun.New(rc.c18fn, c18Schedules(&p))
		var maxGap atomic.Int64
		stopMon := make(chan struct{})
		go func() {
			// the process's own hiccups, for telling a starved machine from an idle runner
			prev := time.Now()
			for {
				select {
				case <-stopMon:
					return
				case <-time.After(5 * time.Millisecond):
				}
				if g := int64(time.Since(prev)); g > maxGap.Load() {
					maxGap.Store(g)
				}
				prev = time.Now()
			}
		}()
		last := p.Scheds[len(p.Scheds)-1]
		fast := time.Duration(last.FreqMS) * time.Millisecond
		slowIdx := len(p.Scheds) - 2
		slow := time.Duration(p.Scheds[slowIdx].FreqMS) * time.Millisecond
		runner.Start(ctx)
		deadline := time.Now().Add(3400 * time.Millisecond)
		sawFast, sawSlow := false, false
		for time.Now().Before(deadline) && !sawFast && !sawSlow {
			time.Sleep(20 * time.Millisecond)
			rc.mu.Lock()
			for _, in := range rc.invs {
				if in.freq == fast {
					sawFast = true
				}
				if in.freq == slow {
					sawSlow = true
				}
			}
			rc.mu.Unlock()
		}
		runner.Stop()
		close(stopMon)
		rc.mu.Lock()
		n := len(rc.invs)
		rc.mu.Unlock()
		o.AddObs("invocations", int64(n))
		if !sawFast {
			if g := time.Duration(maxGap.Load()); g > time.Second {
				o.Inconc("the machine stalled for %v during the script", g)
				return
			}
			o.Violate(key, "schedules %v: the schedule with a %v period was due %d ms after its predecessor began (the predecessor's own period is %v, so it has not fired by then); after 3.4 s (longest hiccup of this process: %v) the function had been invoked %d times, never at %v, at %v: %v - the runner did not move to the next schedule after its start delay",
				p.Scheds, fast, last.DelayMS, slow, time.Duration(maxGap.Load()), n, fast, slow, sawSlow)
			return
		}
	case "zero-delay-middle":
		// a schedule with start delay 0 in the middle of the list takes over at once; the one after it still
		// waits for its own start delay
		rc := &c18Rec{l: l}
		tNew := l.Now()
		runner, _ := raterun.New(rc.c18fn, c18Schedules(&p))
		runner.Start(ctx)
		time.Sleep(450 * time.Millisecond)
		runner.Stop()
		last := p.Scheds[len(p.Scheds)-1]
		rc.mu.Lock()
		invs := append([]c18Inv{}, rc.invs...)
		rc.mu.Unlock()
		sawMiddle := false
		for i, in := range invs {
			if in.freq == time.Duration(p.Scheds[1].FreqMS)*time.Millisecond {
				sawMiddle = true
			}
			if in.freq == time.Duration(last.FreqMS)*time.Millisecond && in.begin < tNew+time.Duration(last.DelayMS)*time.Millisecond {
				o.Violate(key, "schedules %v: invocation %d ran at the last schedule's frequency %v after New, before that schedule's start delay of %d ms had elapsed", p.Scheds, i, in.begin-tNew, last.DelayMS)
				return
			}
		}
		if !sawMiddle {
			o.Inconc("the zero-delay schedule was never observed")
			return
		}
		o.AddObs("invocations", int64(len(invs)))
	case "long-blocked-stop":
		// the function stays blocked for 6.5 s after Stop was called: Stop has not returned by then
		rc := &c18Rec{l: l, gate: make(chan struct{}), entered: make(chan struct{})}
		runner, _ := raterun.New(rc.c18fn, c18Schedules(&p))
		runner.Start(ctx)
		select {
		case <-rc.entered:
		case <-time.After(10 * time.Second):
			o.Inconc("function never invoked")
			cancel()
			return
		}
		done, infl := stopInGoroutine(runner, rc)
		select {
		case <-done:
			close(rc.gate)
			o.Violate(key, "Stop returned while the function was still executing, %v after it was called (in flight at return: %d)", l.Now(), infl.Load())
			return
		case <-time.After(6500 * time.Millisecond):
		}
		close(rc.gate)
		select {
		case <-done:
		case <-time.After(10 * time.Second):
			o.Violate(key+"-hang", "Stop did not return within 10 s after the function finished")
			return
		}
	case "restarts-during-report":
		// three Restart calls while the function is busy with a slow report, then Stop: whatever became of the
		// requests, nothing of the runner is left afterwards (8 rounds)
		for round := 0; round < 8; round++ {
			rc := &c18Rec{l: l, gate: make(chan struct{}), entered: make(chan struct{})}
			runner, _ := raterun.New(rc.c18fn, c18Schedules(&p))
			runner.Start(ctx)
			select {
			case <-rc.entered:
			case <-time.After(10 * time.Second):
				o.Inconc("function never invoked")
				cancel()
				return
			}
			restarted := make(chan struct{})
			go func() {
				defer close(restarted)
				for i := 0; i < 3; i++ {
					runner.Restart()
				}
			}()
			time.Sleep(20 * time.Millisecond)
			close(rc.gate)
			select {
			case <-restarted:
			case <-time.After(10 * time.Second):
				o.Violate(key, "three Restart calls made while the function was executing had not all returned 10 s after it finished")
				return
			}
			done, _ := stopInGoroutine(runner, rc)
			select {
			case <-done:
			case <-time.After(10 * time.Second):
				o.Violate(key+"-hang", "Stop did not return within 10 s")
				return
			}
			time.Sleep(20 * time.Millisecond)
			if !c18Leak(o, opt, p.Desc+" (after Restart x3 during a slow report, then Stop)") {
				return
			}
		}
	case "restart-at-start":
		// a single schedule; Restart right after Start, when the first start delay is expiring: the runner goes (back) to
		// that schedule and keeps ticking (20 rounds, bounded progress: 5 ms ticks, one invocation within 2 s)
		for round := 0; round < 20; round++ {
			rc := &c18Rec{l: l}
			runner, _ := raterun.New(rc.c18fn, c18Schedules(&p))
			runner.Start(ctx)
			if round%2 == 1 {
				time.Sleep(time.Duration(round) * 50 * time.Microsecond)
			}
			runner.Restart()
			n0 := func() int { rc.mu.Lock(); defer rc.mu.Unlock(); return len(rc.invs) }()
			ok := waitUntil(2*time.Second, func() bool { rc.mu.Lock(); defer rc.mu.Unlock(); return len(rc.invs) > n0 })
			done, _ := stopInGoroutine(runner, rc)
			select {
			case <-done:
			case <-time.After(10 * time.Second):
				o.Violate(key+"-hang", "Stop did not return within 10 s")
				return
			}
			if !ok {
				o.Violate(key, "one schedule (5 ms ticks), Restart right after Start (round %d): the function was not invoked once in the 2 s that followed - the runner is running and has stopped ticking", round)
				return
			}
		}
	case "restart-after-stop":
		// Restart on a runner that was stopped (or whose context ended): a request nobody will look at; the function is
		// not invoked again and nothing of the runner comes back
		for round := 0; round < 4; round++ {
			rc := &c18Rec{l: l}
			rctx, rcancel := context.WithCancel(ctx)
			runner, _ := raterun.New(rc.c18fn, c18Schedules(&p))
			runner.Start(rctx)
			time.Sleep(30 * time.Millisecond)
			if round%2 == 0 {
				done, _ := stopInGoroutine(runner, rc)
				select {
				case <-done:
				case <-time.After(10 * time.Second):
					rcancel()
					o.Violate(key+"-hang", "Stop did not return within 10 s")
					return
				}
			} else {
				rcancel()
				time.Sleep(30 * time.Millisecond)
			}
			n0 := func() int { rc.mu.Lock(); defer rc.mu.Unlock(); return len(rc.invs) }()
			runner.Restart()
			time.Sleep(150 * time.Millisecond)
			n1 := func() int { rc.mu.Lock(); defer rc.mu.Unlock(); return len(rc.invs) }()
			rcancel()
			if n1 > n0 {
				o.Violate(key, "the function was invoked %d more times after the runner had been %s and Restart was called on it", n1-n0, map[bool]string{true: "stopped", false: "cancelled"}[round%2 == 0])
				return
			}
			if !c18Leak(o, opt, p.Desc+" (Restart after the runner ended)") {
				return
			}
		}
	case "overrun-then-switch":
		// the function takes longer than the first schedule's period (30 ms against 20 ms): the second schedule still
		// starts after its start delay (bounded progress: seen within 3 s)
		rc := &c18Rec{l: l, fnUS: 30000}
		runner, _ := raterun.New(rc.c18fn, c18Schedules(&p))
		runner.Start(ctx)
		f2nd := time.Duration(p.Scheds[1].FreqMS) * time.Millisecond
		ok := waitUntil(3*time.Second, func() bool {
			rc.mu.Lock()
			defer rc.mu.Unlock()
			for _, in := range rc.invs {
				if in.freq == f2nd {
					return true
				}
			}
			return false
		})
		done, _ := stopInGoroutine(runner, rc)
		select {
		case <-done:
		case <-time.After(10 * time.Second):
			o.Violate(key+"-hang", "Stop did not return within 10 s")
			return
		}
		if !ok {
			rc.mu.Lock()
			n := len(rc.invs)
			rc.mu.Unlock()
			o.Violate(key, "schedules %v with a function that takes 30 ms: after 3 s and %d invocations the second schedule (due after 250 ms) has not started", p.Scheds, n)
			return
		}
	case "restart-before-first-delay":
		// Restart before the first schedule's own start delay has elapsed: the first schedule starts then, the second one
		// 250 ms later, and nothing goes back to the first schedule afterwards (no further Restart is made)
		rc := &c18Rec{l: l}
		runner, _ := raterun.New(rc.c18fn, c18Schedules(&p))
		runner.Start(ctx)
		runner.Restart()
		time.Sleep(1100 * time.Millisecond)
		done, _ := stopInGoroutine(runner, rc)
		select {
		case <-done:
		case <-time.After(10 * time.Second):
			o.Violate(key+"-hang", "Stop did not return within 10 s")
			return
		}
		rc.mu.Lock()
		invs := append([]c18Inv(nil), rc.invs...)
		rc.mu.Unlock()
		f1st, f2nd := time.Duration(p.Scheds[0].FreqMS)*time.Millisecond, time.Duration(p.Scheds[1].FreqMS)*time.Millisecond
		seen2 := -1
		for i, in := range invs {
			if in.freq == f2nd && seen2 < 0 {
				seen2 = i
			}
			if in.freq == f1st && seen2 >= 0 {
				o.Violate(key, "schedules %v, Restart right after Start and none afterwards: invocation %d (at %v) runs at the first schedule's frequency again after invocation %d had run at the second schedule's: the runner went back to the first schedule by itself", p.Scheds, i, in.begin, seen2)
				return
			}
		}
		if seen2 < 0 {
			o.Inconc("the second schedule was never observed")
			return
		}
		o.AddObs("invocations", int64(len(invs)))
	case "double-stop":
		// several Stop calls overlapping while the function is executing: none of them may return before it has
		rc := &c18Rec{l: l, gate: make(chan struct{}), entered: make(chan struct{})}
		runner, _ := raterun.New(rc.c18fn, c18Schedules(&p))
		runner.Start(ctx)
		select {
		case <-rc.entered:
		case <-time.After(10 * time.Second):
			o.Inconc("function never invoked")
			cancel()
			return
		}
		var dones []chan struct{}
		for i := 0; i < 3; i++ {
			d, _ := stopInGoroutine(runner, rc)
			dones = append(dones, d)
			time.Sleep(time.Duration(i) * time.Millisecond)
		}
		time.Sleep(150 * time.Millisecond)
		for i, d := range dones {
			select {
			case <-d:
				close(rc.gate)
				o.Violate(key, "3 overlapping Stop calls with the function executing: call %d returned while it was still executing", i+1)
				return
			default:
			}
		}
		close(rc.gate)
		for i, d := range dones {
			select {
			case <-d:
			case <-time.After(10 * time.Second):
				o.Violate(key+"-hang", "Stop call %d of 3 overlapping ones did not return within 10 s after the function finished", i+1)
				return
			}
		}
		// a further Stop on the stopped runner returns
		d, _ := stopInGoroutine(runner, rc)
		select {
		case <-d:
		case <-time.After(10 * time.Second):
			o.Violate(key+"-hang", "Stop on an already stopped runner did not return within 10 s")
			return
		}
	case "parked-dispatch":
		hc := engine.NewHookCtl(c.Seed)
		pk := hc.ParkNth("raterun.beforeDispatch", 3)
		hc.Install()
		defer hc.Uninstall()
		rc := &c18Rec{l: l}
		runner, _ := raterun.New(rc.c18fn, c18Schedules(&p))
		runner.Start(ctx)
		select {
		case <-pk.Arrived:
		case <-time.After(10 * time.Second):
			o.Inconc("runner never reached the dispatch hook")
			return
		}
		done, infl := stopInGoroutine(runner, rc)
		select {
		case <-done:
			// Stop returned although the runner is about to dispatch a due tick
			before := l.Count("fn.begin")
			pk.Release()
			time.Sleep(50 * time.Millisecond)
			after := l.Count("fn.begin")
			if after > before {
				o.Violate(key, "Stop returned while the runner was about to dispatch a due tick; the function was invoked after Stop had returned")
			} else {
				o.Violate(key, "Stop returned while the runner goroutine was still alive (parked before a dispatch)")
			}
			return
		case <-time.After(150 * time.Millisecond):
		}
		pk.Release()
		select {
		case <-done:
		case <-time.After(10 * time.Second):
			o.Violate(key+"-hang", "Stop did not return")
			return
		}
		if infl.Load() != 0 {
			o.Violate(key, "function in flight when Stop returned")
			return
		}
		// nothing may begin after stop.return
		var stopSeq int64
		for _, e := range l.Events() {
			if e.Kind == "stop.return" {
				stopSeq = e.Seq
			}
			if e.Kind == "fn.begin" && stopSeq != 0 && e.Seq > stopSeq {
				o.Violate(key, "function invoked after Stop returned")
				return
			}
		}
		for site, n := range hc.ReachedCounts() {
			o.AddObs("hook:"+site, n)
		}
	case "stop-at-once":
		// Stop directly after Start, before the runner's goroutine has been scheduled (one P): when Stop has
		// returned, the goroutine must be gone. 50 attempts; a goroutine dump is taken right after each Stop.
		// (On one P the runner goroutine finishes before the caller resumes; a stray asynchronous preemption
		// between its last statement and its exit is tolerated: 10 of 50 attempts are needed for a verdict.)
		prev := runtime.GOMAXPROCS(1)
		rc := &c18Rec{l: l}
		remained, attempts := 0, 50
		buf := make([]byte, 1<<20)
		var sample string
		for a := 0; a < attempts; a++ {
			runner, _ := raterun.New(rc.c18fn, c18Schedules(&p))
			actx, acancel := context.WithCancel(ctx)
			runner.Start(actx)
			runner.Stop()
			n := runtime.Stack(buf, true)
			if i := strings.Index(string(buf[:n]), "raterun.(*Runner).Start"); i >= 0 {
				remained++
				if sample == "" {
					sample = firstN(string(buf[max(0, i-200):n]), 600)
				}
			}
			acancel()
			time.Sleep(time.Millisecond)
		}
		runtime.GOMAXPROCS(prev)
		o.AddObs("immediate_stops", int64(attempts))
		o.AddObs("immediate_stops_goroutine_seen", int64(remained))
		if remained >= 10 {
			o.Violate(key, "Stop was called directly after Start %d times; %d times the runner's goroutine still existed when Stop had returned: %s", attempts, remained, sample)
			return
		}
		time.Sleep(30 * time.Millisecond)
		rc.mu.Lock()
		ninv := len(rc.invs)
		rc.mu.Unlock()
		if ninv > 0 {
			o.Violate(key, "the run function was invoked %d times by runners that were stopped directly after Start (first tick due after 5 ms)", ninv)
			return
		}
	case "restart-from-last":
		// Restart while the last schedule is current: the runner goes back to the first schedule and, after the
		// second schedule's start delay, moves on to it again
		rc := &c18Rec{l: l}
		runner, _ := raterun.New(rc.c18fn, c18Schedules(&p))
		d1 := time.Duration(p.Scheds[1].DelayMS) * time.Millisecond
		f1 := time.Duration(p.Scheds[1].FreqMS) * time.Millisecond
		f0 := time.Duration(p.Scheds[0].FreqMS) * time.Millisecond
		runner.Start(ctx)
		count := func(freq time.Duration, after time.Duration) int {
			rc.mu.Lock()
			defer rc.mu.Unlock()
			n := 0
			for _, in := range rc.invs {
				if in.freq == freq && in.begin > after {
					n++
				}
			}
			return n
		}
		for w := 0; count(f1, 0) < 2 && w < 400; w++ {
			time.Sleep(5 * time.Millisecond)
		}
		if count(f1, 0) < 2 {
			runner.Stop()
			o.Inconc("the last schedule was not reached within 2 s")
			return
		}
		// let the point at which the second schedule became current fall well into the past
		time.Sleep(time.Duration(c.Rng("late").IntN(2*p.Scheds[1].DelayMS)) * time.Millisecond)
		rBefore := l.Now()
		runner.Restart()
		rAfter := l.Now()
		// bounded progress in the runner's own steps: 60 first-schedule invocations after the point at which
		// the second schedule was due again (start delay + one tick + 300 ms of slack)
		due := rAfter + d1 + f1 + 300*time.Millisecond
		for w := 0; count(f1, rAfter+f0) == 0 && count(f0, due) < 60 && w < 2000; w++ {
			time.Sleep(5 * time.Millisecond)
		}
		back := count(f0, rAfter)
		again := count(f1, rAfter+f0)
		// not too early either: after going back to the first schedule the next one starts after its whole start delay
		// (timers never fire early); judged only when the first schedule visibly resumed before it
		rc.mu.Lock()
		firstF0, firstF1 := time.Duration(-1), time.Duration(-1)
		for _, in := range rc.invs {
			if in.begin > rAfter+f0 && in.freq == f1 && firstF1 < 0 {
				firstF1 = in.begin
			}
			if in.begin > rAfter && in.freq == f0 && firstF0 < 0 {
				firstF0 = in.begin
			}
		}
		rc.mu.Unlock()
		if firstF1 >= 0 && firstF0 >= 0 && firstF0 < firstF1 && firstF1 < rBefore+d1+f1 {
			runner.Stop()
			o.Violate(key, "Restart during the last schedule (called %v after New) went back to the first schedule, but an invocation at the next schedule's frequency began %v after the Restart call, earlier than that schedule's start delay %v + one tick %v", rBefore, firstF1-rBefore, d1, f1)
			return
		}
		late := count(f0, due)
		runner.Stop()
		if back == 0 {
			if again >= 5 {
				o.Violate(key, "Restart during the last schedule: no invocation at the first schedule's frequency followed, %d more at the last schedule's: the runner did not go back to the first schedule", again)
				return
			}
			o.Inconc("no invocation observed after Restart")
			return
		}
		if again == 0 {
			if late >= 60 {
				o.Violate(key, "Restart during the last schedule went back to the first schedule, but the runner never moved on to the next schedule again: %d first-schedule invocations happened after it was due (start delay %v + tick %v + 300 ms after the Restart)", late, d1, f1)
				return
			}
			o.Inconc("second schedule not observed again after Restart (only %d late first-schedule invocations)", late)
			return
		}
		rc.mu.Lock()
		o.AddObs("invocations", int64(len(rc.invs)))
		rc.mu.Unlock()
	case "restart-rearm":
		rc := &c18Rec{l: l}
		tNew := l.Now()
		runner, _ := raterun.New(rc.c18fn, c18Schedules(&p))
		runner.Start(ctx)
		time.Sleep(60 * time.Millisecond)
		rBefore := l.Now()
		runner.Restart()
		rAfter := l.Now()
		d1 := time.Duration(p.Scheds[1].DelayMS) * time.Millisecond
		f1 := time.Duration(p.Scheds[1].FreqMS) * time.Millisecond
		f0 := time.Duration(p.Scheds[0].FreqMS) * time.Millisecond
		if rAfter >= tNew+d1/2 {
			runner.Stop()
			o.Inconc("Restart was issued too late (%v after New) to be certain that the second schedule had not started", rAfter-tNew)
			return
		}
		time.Sleep(d1 + 6*f1)
		runner.Stop()
		rc.mu.Lock()
		invs := append([]c18Inv{}, rc.invs...)
		rc.mu.Unlock()
		pendingDispatches := 0
		sawSecond := false
		for i, in := range invs {
			if in.freq == f0 && in.begin > rAfter && !sawSecond {
				pendingDispatches++
			}
			if in.freq == f1 {
				sawSecond = true
				if in.begin < rBefore+d1+f1 {
					if pendingDispatches >= 20 {
						o.Violate(key, "Restart was called %v after New during the first schedule; invocation %d at the second schedule's frequency began %v after the Restart call, earlier than its start delay %v + one tick %v, although %d dispatches of the first schedule happened in between: Restart did not go back to the first schedule's start", rBefore-tNew, i, in.begin-rBefore, d1, f1, pendingDispatches)
						return
					}
					o.Inconc("early second-schedule invocation but only %d dispatches with the restart pending", pendingDispatches)
					return
				}
				break
			}
		}
		if !sawSecond {
			o.Inconc("second schedule never observed")
			return
		}
		o.AddObs("invocations", int64(len(invs)))
	}
	if !c18Leak(o, opt, p.Desc) {
		return
	}
	o.Events = int64(l.Len())
	o.AddObs("scripts_formed", 1)
	o.AddObs("stops_checked", 1)
	o.Sig("script:%s", p.Script)
	o.Sample = map[string]any{"script": p.Script, "events": l.Len()}
}
