package props

import (
	"context"
	"fmt"
	"sync"
	"sync/atomic"
	"time"

	"github.com/form3tech-oss/f1/v2/internal/metrics"
	"github.com/form3tech-oss/f1/v2/pkg/f1"
	"github.com/form3tech-oss/f1/v2/pkg/f1/scenarios"
	f1testing "github.com/form3tech-oss/f1/v2/pkg/f1/testing"
	"github.com/form3tech-oss/f1/v2/verifharness/core"
	"github.com/form3tech-oss/f1/v2/verifharness/engine"
)

// C20 — combined scenarios run every component, in order, in setup and in each iteration.

type c20Comp struct {
	Setup  int  `json:"setup"`  // behaviour kind in setup
	Iter   int  `json:"iter"`   // behaviour kind in the iteration function
	Period int  `json:"period"` // the iteration behaviour applies when id % period == 0 (1 = always)
	Timed  bool `json:"timed"`  // the iteration behaviour happens inside a t.Time(...) block
	// Nil: the component's setup hands back a nil iteration function (a forgotten return value): invoking it panics, which
	// stops the iteration there and fails it, every time
	Nil bool `json:"nil,omitempty"`
}

type c20Params struct {
	Comps []c20Comp `json:"comps"`
	Conc  int       `json:"conc"`
	N     int       `json:"n"`
	Mode  string    `json:"mode"`
	Reps  int       `json:"reps"` // consecutive runs of the same combined scenario value
	// Nest > 0: the components are grouped into nested CombineScenarios calls (shape drawn from this seed);
	// nesting is flattening, so the expected event log is the same
	Nest uint64 `json:"nest,omitempty"`
	// Quiet: verbose run with a logger that shows nothing
	Quiet bool `json:"quiet,omitempty"`
}

// c20Nest combines the components through nested CombineScenarios calls.
func c20Nest(comps []f1testing.ScenarioFn, r interface{ IntN(int) int }, depth int) (f1testing.ScenarioFn, int) {
	if len(comps) <= 1 || depth > 3 {
		return f1.CombineScenarios(comps...), depth
	}
	var parts []f1testing.ScenarioFn
	maxd := depth
	for i := 0; i < len(comps); {
		if r.IntN(4) == 0 {
			// a group that combines nothing (a feature switched off, say): it contributes nothing and changes nothing
			parts = append(parts, f1.CombineScenarios())
		}
		n := 1 + r.IntN(len(comps)-i)
		if n == len(comps) {
			n = len(comps) - 1
		}
		if n == 1 && r.IntN(2) == 0 {
			parts = append(parts, comps[i])
		} else {
			sub, d := c20Nest(comps[i:i+n], r, depth+1)
			parts = append(parts, sub)
			maxd = max(maxd, d)
		}
		i += n
	}
	return f1.CombineScenarios(parts...), maxd
}

func init() {
	core.Register(&core.Property{
		ID: "C20",
		Rule: "generated assignments of behaviours (pass, Fail/Error/assert, FailNow/Fatal/require, panics incl. runtime errors) to the setups and iteration functions of 1-8 components combined with f1.CombineScenarios, run through real runs (users and rate triggers, 1 and 4 workers, limit N). The event log (setup_i(handle), iter_i(handle,id)) is checked: each setup once, in order, same handle, stopping at the first stopping behaviour (then no iteration runs and the run is failed); each iteration calls components in order with its own handle, a stopping component cuts only that iteration, reported outcome = some component failed. " +
			"non-trivial = >= 2 components with a non-pass behaviour somewhere; distinct = distinct (#components, first faulty setup kind/position, iteration fault classes, workers) classes",
		Gen: func(tier string, seed uint64) []core.Case {
			r := core.Rng(seed, "C20", tier)
			n := 120
			if tier == "thorough" {
				n = 2500
			}
			var cs []core.Case
			for i := 0; i < n; i++ {
				p := c20Params{Conc: pick(r, 1, 4), N: 6 + r.IntN(10), Mode: pick(r, "users", "users", "constant")}
				if i%10 == 9 {
					// iterations that outlive a config-file stage: the next stage's pool starts while they run
					p.Mode, p.Conc, p.N = "filespan", pick(r, 1, 2), 30+r.IntN(20)
				}
				nc := 1 + r.IntN(8)
				setupFault := r.IntN(4) == 0
				for k := 0; k < nc; k++ {
					cp := c20Comp{Period: pick(r, 1, 2, 3)}
					if setupFault && r.IntN(nc) == 0 {
						cp.Setup = 1 + r.IntN(engine.NumBehaviours-1)
					}
					if r.IntN(3) == 0 {
						cp.Iter = 1 + r.IntN(engine.NumBehaviours-1)
						cp.Timed = r.IntN(3) == 0
					}
					p.Comps = append(p.Comps, cp)
				}
				if i%9 == 4 && !setupFault && nc >= 2 {
					// (never the first component: its call is what shows that an iteration took place at all)
					p.Comps[1+r.IntN(nc-1)].Nil = true
				}
				if i%4 == 1 && nc >= 2 {
					p.Nest = 1 + r.Uint64()>>1
				}
				p.Quiet = i%5 == 2
				p.Reps = 1
				if i%3 == 0 {
					p.Reps = 2 + r.IntN(2)
				}
				cse := core.MkCase("C20", "combine", i, seed, p)
				cse.Race = i%4 == 0
				cse.Procs = pick(r, 1, 2, 16)
				cse.TimeoutMS = 60000
				cs = append(cs, cse)
			}
			// an iteration that is still inside its first component when the run gives up waiting and tears the scenario down
			for i := 0; i < map[string]int{"quick": 4, "thorough": 24}[tier]; i++ {
				cse := core.MkCase("C20", "overlap", i, seed, map[string]int{"comps": 2 + r.IntN(4), "conc": 2 + r.IntN(3), "nest": i % 2, "ending": i / 2 % 2})
				cse.Race = i%2 == 0
				cse.Procs = pick(r, 2, 16)
				cse.TimeoutMS = 60000
				cs = append(cs, cse)
			}
			return cs
		},
		Kinds:  map[string]core.RunFunc{"combine": c20Run, "overlap": c20Overlap},
		Floors: map[string]int64{"iterations_checked": 500, "iterations_cut_by_stopping_component": 100, "setup_fault_runs": 10},
	})
}

func c20Run(c *core.Case, o *core.Outcome) {
	var p c20Params
	c.Params(&p)
	metrics.Init(true) // T.Time records through the process-wide instance
	defer engine.OtherHandle.Store(nil)
	cur := &c20Cur{l: engine.NewLog()}
	var comps []f1testing.ScenarioFn
	for i, cp := range p.Comps {
		i, cp := i, cp
		comps = append(comps, func(t *f1testing.T) f1testing.RunFn {
			if i == 0 {
				engine.OtherHandle.Store(t)
			}
			cur.l.Add("setup", engine.HandleID(t), "", int64(i), "")
			if cp.Setup != engine.BPass {
				engine.Behave(t, cp.Setup)
			}
			if cp.Nil {
				return nil
			}
			return func(t *f1testing.T) {
				if p.Mode == "filespan" && i == 0 {
					id := t.Iteration
					engine.SpanSleep(engine.IDOf(t))
					if t.Iteration != id {
						cur.l.Add("relabel", engine.HandleID(t), id, 0, t.Iteration)
					}
				}
				cur.l.Add("iter", engine.HandleID(t), t.Iteration, int64(i), "")
				if cp.Iter != engine.BPass && engine.IDOf(t)%uint64(cp.Period) == 0 {
					if cp.Timed {
						t.Time("stage", func() { engine.Behave(t, cp.Iter) })
					} else {
						engine.Behave(t, cp.Iter)
					}
				}
			}
		})
	}
	var spec engine.Spec
	if p.Mode == "users" {
		spec = engine.Spec{Mode: "users", Concurrency: p.Conc, MaxDurationMS: 60000}
	} else if p.Mode == "filespan" {
		spec = engine.FileSpanSpec(p.Conc, uint64(p.N))
	} else {
		spec = engine.RateSpec("constant", p.Conc, 5, p.Conc)
	}
	spec.MaxIterations = uint64(p.N)
	spec.IgnoreDropped = true
	if p.Quiet {
		// the handles log into a logger that is disabled for every level
		spec.Verbose, spec.QuietLogger = true, true
	}
	combined := f1.CombineScenarios(comps...)
	if p.Nest > 0 {
		var depth int
		combined, depth = c20Nest(comps, core.Rng(p.Nest, "nest"), 1)
		o.MaxObs("max:nesting_depth", int64(depth))
		o.AddObs("nested_cases", 1)
	}
	// consecutive runs share the registered scenario object, as with one f1.F1 instance executed twice
	reg := scenarios.New()
	for rep := 1; rep <= max(p.Reps, 1) && o.Verdict == core.Held; rep++ {
		cur.l = engine.NewLog()
		c20Once(c, o, &p, spec, cur.l, combined, rep, reg)
	}
}

type c20Cur struct{ l *engine.Log }

func c20Once(c *core.Case, o *core.Outcome, p *c20Params, spec engine.Spec, l *engine.Log, combined f1testing.ScenarioFn, rep int, reg *scenarios.Scenarios) {
	ctx, cancel := context.WithCancel(context.Background())
	defer cancel()
	r := engine.Execute(ctx, spec, l, combined, &engine.Hooks{Registry: reg}, nil)
	if r.NewErr != nil {
		o.Inconc("harness: cannot build run: %v", r.NewErr)
		return
	}
	desc := fmt.Sprintf("comps=%+v conc=%d N=%d mode=%s run %d/%d of the same combined scenario", p.Comps, p.Conc, p.N, p.Mode, rep, max(p.Reps, 1))
	key := "combine:" + desc
	if len(key) > 300 {
		key = key[:300]
	}
	// expected setup sequence
	wantSetups := 0
	setupFailed := false
	for _, cp := range p.Comps {
		wantSetups++
		if cp.Setup != engine.BPass {
			setupFailed = true
			if engine.Stops(cp.Setup) {
				break
			}
		}
	}
	evs := l.Events()
	o.Events += int64(len(evs))
	var setupHandle string
	setupsSeen := 0
	type itState struct {
		h    string
		next int
		cut  bool
	}
	its := map[string]*itState{}
	order := []string{}
	for _, e := range evs {
		switch e.Kind {
		case "relabel":
			o.Violate(key, "the handle of iteration %s was relabelled to iteration %s while component 0 was still running: two iterations share one handle (%s)", e.ID, e.S, desc)
			return
		case "setup":
			if int(e.V) != setupsSeen {
				o.Violate(key, "setup of component %d ran at position %d (%s)", e.V, setupsSeen, desc)
				return
			}
			if setupsSeen == 0 {
				setupHandle = e.H
			} else if e.H != setupHandle {
				o.Violate(key, "setup of component %d received handle %s, component 0 received %s (%s)", e.V, e.H, setupHandle, desc)
				return
			}
			setupsSeen++
		case "iter":
			st := its[e.ID]
			if st == nil {
				st = &itState{h: e.H}
				its[e.ID] = st
				order = append(order, e.ID)
			}
			if e.H != st.h {
				o.Violate(key, "iteration %s: component %d received handle %s, component 0 received %s (%s)", e.ID, e.V, e.H, st.h, desc)
				return
			}
			if e.H == setupHandle {
				o.Violate(key, "iteration %s received the setup handle (%s)", e.ID, desc)
				return
			}
			if int(e.V) != st.next {
				o.Violate(key, "iteration %s: component %d ran, expected component %d next (components must run in the given order, each once) (%s)", e.ID, e.V, st.next, desc)
				return
			}
			st.next++
		}
	}
	if setupsSeen != wantSetups {
		o.Violate(key, "%d component setups ran, expected %d (each once, in order, stopping at the first stopping behaviour) (%s)", setupsSeen, wantSetups, desc)
		return
	}
	if setupFailed {
		o.AddObs("setup_fault_runs", 1)
		if len(its) != 0 {
			o.Violate(key, "a component setup failed but %d iterations ran (%s)", len(its), desc)
			return
		}
		if !r.Result.Failed() {
			o.Violate(key, "a component setup failed but the run is not reported failed (%s)", desc)
			return
		}
		o.Sig("setupfault:n=%d", len(p.Comps))
		o.Sample = map[string]any{"case": desc, "setups_run": setupsSeen}
		return
	}
	if len(its) != p.N {
		if su, fa, _ := resultCounts(r); int(su+fa) == p.N && len(its) < p.N {
			o.Violate(key, "the result counts %d iterations (%d successful, %d failed) but only %d of them invoked the first component's iteration function: some iterations ran no component at all (%s)", su+fa, su, fa, len(its), desc)
			return
		}
		o.Inconc("%d iterations observed, expected %d (%s)", len(its), p.N, desc)
		return
	}
	var wantFail, wantPass uint64
	cutCount := 0
	for id, st := range its {
		var n uint64
		fmt.Sscan(id, &n)
		expectRan := 0
		failed := false
		for _, cp := range p.Comps {
			if cp.Nil {
				// calling the nil function panics: the iteration stops here and has failed
				failed = true
				break
			}
			expectRan++
			if cp.Iter != engine.BPass && n%uint64(cp.Period) == 0 {
				failed = true
				if engine.Stops(cp.Iter) {
					break
				}
			}
		}
		if st.next != expectRan {
			o.Violate(key, "iteration %s ran %d components, expected %d (a stopping component prevents the later ones in that iteration only; a non-stopping failure does not) (%s)", id, st.next, expectRan, desc)
			return
		}
		if expectRan < len(p.Comps) {
			cutCount++
		}
		if failed {
			wantFail++
		} else {
			wantPass++
		}
	}
	su, fa, _ := resultCounts(r)
	if su != wantPass || fa != wantFail {
		o.Violate(key, "result reports %d successful / %d failed iterations, component behaviours give %d / %d (%s)", su, fa, wantPass, wantFail, desc)
		return
	}
	// the exported metrics report the same outcomes
	if fams, gerr := engine.Gather(r.Registry); gerr == nil {
		if ic := engine.IterationCounts(fams); ic["success"] != wantPass || ic["fail"] != wantFail {
			o.Violate(key, "metrics carry success=%d fail=%d for the iterations, component behaviours give %d / %d (%s)", ic["success"], ic["fail"], wantPass, wantFail, desc)
			return
		}
	}
	o.AddObs("iterations_checked", int64(len(its)))
	o.AddObs("iterations_cut_by_stopping_component", int64(cutCount))
	faulty := 0
	for _, cp := range p.Comps {
		if cp.Iter != engine.BPass {
			faulty++
		}
	}
	if len(p.Comps) >= 2 && faulty > 0 {
		o.Sig("n=%d:faulty=%d:cut=%v:conc=%d:mode=%s:nested=%v:quiet=%v", len(p.Comps), faulty, cutCount > 0, p.Conc, p.Mode, p.Nest > 0, p.Quiet)
	}
	o.Sample = map[string]any{"case": desc, "iterations": len(its), "cut": cutCount, "failed": wantFail}
}

// c20Overlap: the first iteration stays inside the first component until the scenario's teardown has begun (the run ended
// by its limit or by an interrupt, waited its completion timeout of 150 ms and gave up on it). That iteration then goes
// on: it still invokes every component, in order, with its own handle - nothing stopped it.
func c20Overlap(c *core.Case, o *core.Outcome) {
	var pp map[string]int
	c.Params(&pp)
	nc := pp["comps"]
	l := engine.NewLog()
	teardown := make(chan struct{})
	var once sync.Once
	ctx, cancel := context.WithCancel(context.Background())
	defer cancel()
	var started atomic.Int64
	var comps []f1testing.ScenarioFn
	for i := 0; i < nc; i++ {
		i := i
		comps = append(comps, func(t *f1testing.T) f1testing.RunFn {
			if i == 0 {
				t.Cleanup(func() { once.Do(func() { close(teardown) }) })
			}
			return func(t *f1testing.T) {
				if i == 0 {
					n := started.Add(1)
					if n == 1 {
						l.Add("iter", engine.HandleID(t), "first", int64(i), "")
						<-teardown
						time.Sleep(20 * time.Millisecond)
						return
					}
					if pp["ending"] == 1 && n == 4 {
						cancel()
					}
				}
				l.Add("iter", engine.HandleID(t), t.Iteration, int64(i), "")
			}
		})
	}
	combined := f1.CombineScenarios(comps...)
	if pp["nest"] == 1 {
		combined, _ = c20Nest(comps, c.Rng("nest"), 1)
	}
	spec := engine.Spec{Mode: "users", Concurrency: pp["conc"], MaxDurationMS: 30000, MaxIterations: 12, IgnoreDropped: true, CompletionMS: 150}
	r := engine.Execute(ctx, spec, l, combined, nil, nil)
	if r.NewErr != nil {
		o.Inconc("harness: cannot build run: %v", r.NewErr)
		return
	}
	select {
	case <-teardown:
	case <-time.After(5 * time.Second):
		o.Inconc("the scenario was not torn down")
		return
	}
	// the first iteration's handle: what it invoked after the teardown began
	var h string
	deadline := time.Now().Add(5 * time.Second)
	var seen []int64
	for {
		seen = seen[:0]
		for _, e := range l.Events() {
			if e.Kind == "iter" && e.ID == "first" {
				h = e.H
			}
		}
		var firstSeq int64 = -1
		for _, e := range l.Events() {
			if e.Kind == "iter" && e.ID == "first" {
				firstSeq = e.Seq
				seen = append(seen, e.V)
			} else if e.Kind == "iter" && e.H == h && firstSeq >= 0 && e.Seq > firstSeq && len(seen) < nc && e.V == int64(len(seen)) {
				seen = append(seen, e.V)
			}
		}
		if len(seen) == nc || time.Now().After(deadline) {
			break
		}
		time.Sleep(20 * time.Millisecond)
	}
	o.Events = int64(l.Len())
	desc := fmt.Sprintf("%d components (nested=%v), %d users, ended by %s, completion timeout 150 ms", nc, pp["nest"] == 1, pp["conc"], map[int]string{0: "its limit", 1: "an interrupt"}[pp["ending"]])
	if h == "" {
		o.Inconc("the first iteration never started (%s)", desc)
		return
	}
	if len(seen) != nc {
		o.Violate("overlap:"+desc, "the first iteration was inside component 0 when the scenario's teardown began and went on 20 ms later; within 5 s it invoked components %v, expected all of 0..%d in order: an iteration that nothing stopped did not invoke every component (%s)", seen, nc-1, desc)
		return
	}
	o.AddObs("overlap_iterations_checked", 1)
	o.Sig("overlap:n=%d:nested=%v:ending=%d", nc, pp["nest"] == 1, pp["ending"])
	o.Sample = map[string]any{"case": desc, "components_invoked_by_the_overlapping_iteration": seen}
}
