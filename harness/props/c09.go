package props

import (
	"context"
	"fmt"
	"io"
	"log/slog"
	"sort"
	"sync"
	"sync/atomic"
	"time"

	"github.com/form3tech-oss/f1/v2/pkg/f1"
	f1testing "github.com/form3tech-oss/f1/v2/pkg/f1/testing"
	"github.com/form3tech-oss/f1/v2/verifharness/core"
	"github.com/form3tech-oss/f1/v2/verifharness/engine"
)

// C09 — tick cadence: one rate evaluation immediately, then at most one per interval.

type c09Params struct {
	Spec     engine.Spec `json:"spec"`
	Interval int         `json:"interval_us"`
	StopAt   int         `json:"stop_at"`  // cancel from inside evaluation m
	StallAt  int         `json:"stall_at"` // evaluation that stalls for 2.5 intervals (-1 none)
	Values   []int       `json:"values"`   // custom mode: scripted distinct values
	Desc     string      `json:"desc"`
}

func init() {
	core.Register(&core.Property{
		ID: "C09",
		Rule: "cadence: real IterationWorker runs (custom scripted rates and the real constant/staged/ramp/gaussian builders, distribution none) with the rate function wrapped to log (k, t_k, v_k) at entry; oracle t_k - t_0 >= k*interval exactly (timers never fire early), also with a stalling evaluation and with large pools whose start-up takes time; " +
			"first: interval 1h, the first body cancels the run - a tree that waits for the first tick starts no body; sum: stop injected from inside evaluation m with concurrency >= max value and instant bodies, so started+dropped must equal the sum of the distinct values of evaluations < m; zero: a zero-valued tick must supersede pending work. " +
			"non-trivial = >= 3 evaluations observed; distinct = distinct (kind, mode, interval, concurrency class, stall?, GOMAXPROCS) classes",
		Assumptions: []string{"lower bounds on evaluation times are sound under arbitrary scheduling delay; no upper bound (punctuality) is claimed"},
		Gen: func(tier string, seed uint64) []core.Case {
			r := core.Rng(seed, "C09", tier)
			var cs []core.Case
			n := 48
			if tier == "thorough" {
				n = 400
			}
			for i := 0; i < n; i++ {
				mode := pick(r, "custom", "custom", "constant", "staged", "ramp", "gaussian")
				ivUS := pick(r, 1000, 2000, 5000, 10000, 20000, 50000, 100000)
				if mode == "custom" && i%3 == 0 {
					// intervals that are not a whole number of milliseconds
					ivUS = pick(r, 1900, 2500, 12345, 1001, 33333)
				}
				if i%8 == 7 {
					ivUS = pick(r, 250000, 1000000)
				}
				c := pick(r, 1, 4, 64, 512, 2000, 5000)
				p := c09Params{Interval: ivUS, StallAt: -1}
				evals := 6 + r.IntN(20)
				if ivUS >= 250000 {
					evals = 3
				}
				p.StopAt = evals
				if r.IntN(3) == 0 {
					p.StallAt = 1 + r.IntN(evals-1)
				}
				if mode == "custom" {
					// distinct values: powers of two and primes mixed so that a re-used or altered value changes the sum
					primes := []int{3, 5, 7, 11, 13, 17, 19, 23, 29, 31, 37, 41, 43, 47, 53, 59, 61, 67, 71, 73, 79, 83, 89, 97, 101, 103, 107, 109, 113}
					for k := 0; k <= evals; k++ {
						p.Values = append(p.Values, primes[(k*7+r.IntN(3))%len(primes)]+k*128)
					}
					if ivUS%1000 != 0 {
						// a tick must stay much cheaper than the interval for the cadence to show: few workers, small values
						c = 16
						for k := range p.Values {
							p.Values[k] = 1 + (p.Values[k]+k)%13
						}
					}
					maxv := 0
					for _, v := range p.Values {
						if v > maxv {
							maxv = v
						}
					}
					if c < maxv {
						c = maxv
					}
					p.Spec = engine.Spec{Mode: "custom", CustomIntervalUS: ivUS, CustomRates: p.Values, Concurrency: c, MaxDurationMS: 60000}
				} else {
					p.Spec = engine.RateSpec(mode, 1+r.IntN(20), ivUS/1000, c)
					if ivUS < 1000 {
						p.Spec = engine.RateSpec(mode, 1+r.IntN(20), 1, c)
						p.Interval = 1000
					}
				}
				if mode != "custom" && ivUS >= 250000 && r.IntN(2) == 0 {
					// the real sub-tick distribution: evaluations every 100 ms
					p.Spec.Distribution = pick(r, "regular", "random")
					p.Interval = 100000
					p.StopAt = 8 + r.IntN(8)
					if p.StallAt >= p.StopAt {
						p.StallAt = -1
					}
				}
				p.Spec.IgnoreDropped = true
				p.Desc = fmt.Sprintf("mode=%s interval=%dus dist=%s c=%d stopAt=%d stallAt=%d", mode, p.Interval, p.Spec.Distribution, c, p.StopAt, p.StallAt)
				cse := core.MkCase("C09", "cadence", i, seed, p)
				cse.Race = i%3 == 0
				cse.Procs = pick(r, 1, 2, 16)
				cse.TimeoutMS = 60000
				cs = append(cs, cse)
			}
			// a far-away max-iterations does not touch what a tick requests: values twice the limit, two workers
			for i := 0; i < 1; i++ {
				lim := 1_000_000
				p := c09Params{Interval: 20000, StallAt: -1, StopAt: 4}
				for k := 0; k <= 5; k++ {
					p.Values = append(p.Values, 2*lim+k*7+3)
				}
				p.Spec = engine.Spec{Mode: "custom", CustomIntervalUS: 20000, CustomRates: p.Values, Concurrency: 2, MaxDurationMS: 60000, MaxIterations: uint64(lim), IgnoreDropped: true}
				p.Desc = fmt.Sprintf("mode=custom interval=20000us c=2 values~%d max-iterations=%d stopAt=4 (requests above the limit)", 2*lim, lim)
				cse := core.MkCase("C09", "cadence", 800+i, seed, p)
				cse.Procs = 16
				cse.TimeoutMS = 120000
				cs = append(cs, cse)
			}
			// triggering that is over before it begins (max-duration inside the 10 ms guard) still evaluates once
			for i, d := range []int{1, 8} {
				p := c09Params{Interval: 3600_000_000, StallAt: -1, StopAt: -1}
				p.Spec = engine.Spec{Mode: "custom", CustomIntervalUS: 3600_000_000, CustomRates: []int{3}, Concurrency: 4, MaxDurationMS: d, IgnoreDropped: true}
				p.Desc = fmt.Sprintf("ended-before-start max-duration=%dms", d)
				cse := core.MkCase("C09", "deadfirst", i, seed, p)
				cse.TimeoutMS = 60000
				cs = append(cs, cse)
			}
			// two command lines on one f1 instance: the second one's trigger flags are its own
			{
				cse := core.MkCase("C09", "clitwice", 0, seed, c09Params{Desc: "run constant -r 40/100ms, then run constant with the default rate, on one instance"})
				cse.Solo = true
				cse.TimeoutMS = 60000
				cs = append(cs, cse)
			}
			// triggers exactly as the command line builds them (the mode's own builder and flags), flat profiles: what has been
			// started so far never exceeds what the ticks so far may have asked for
			for i := 0; i < map[string]int{"quick": 4, "thorough": 16}[tier]; i++ {
				p := c09Params{Interval: pick(r, 200, 300, 500) * 1000, StopAt: -1, StallAt: -1, Values: []int{2 + r.IntN(5), i % 4}}
				p.Desc = fmt.Sprintf("builder %s interval=%dms per-tick=%d", []string{"constant", "staged", "staged --startTime (a little in the past)", "ramp (flat within rounding)"}[i%4], p.Interval/1000, p.Values[0])
				cse := core.MkCase("C09", "builder", i, seed, p)
				cse.Race = i%2 == 0
				cse.Procs = pick(r, 2, 16)
				cse.TimeoutMS = 60000
				cs = append(cs, cse)
			}
			// a config-file plan taken up while its (only) rate stage is under way - schedule.stage-start lies in the past
			for i := 0; i < map[string]int{"quick": 3, "thorough": 12}[tier]; i++ {
				p := c09Params{Interval: pick(r, 50, 100, 200) * 1000, StopAt: -1, StallAt: -1}
				p.Desc = fmt.Sprintf("file stage under way: interval=%dms stage-start %d ms ago", p.Interval/1000, 700+300*i)
				p.Values = []int{700 + 300*i, 2 + r.IntN(4)}
				cse := core.MkCase("C09", "filestage", i, seed, p)
				cse.Race = i%2 == 0
				cse.Procs = pick(r, 2, 16)
				cse.TimeoutMS = 60000
				cs = append(cs, cse)
			}
			// the run ends by its duration a little after a tick: that tick's value still is that tick's request
			nlt := 6
			if tier == "thorough" {
				nlt = 40
			}
			for i := 0; i < nlt; i++ {
				if i%3 == 2 {
					// ticks every few milliseconds up to the end: a tick followed by an evaluation made while triggering was still
					// on has been handed over in time, whatever the clocks say
					iv := pick(r, 2, 3, 5, 7)
					p := c09Params{Interval: iv * 1000, StopAt: -1, StallAt: -1}
					for k := 0; k < 12; k++ {
						p.Values = append(p.Values, 1+r.IntN(6))
					}
					p.Spec = engine.Spec{Mode: "custom", CustomIntervalUS: iv * 1000, CustomRates: p.Values, Concurrency: 64, MaxDurationMS: 150 + r.IntN(200), IgnoreDropped: true}
					p.Desc = fmt.Sprintf("last-ticks interval=%dms max-duration=%dms", iv, p.Spec.MaxDurationMS)
					cse := core.MkCase("C09", "lasttick", i, seed, p)
					cse.Race = i%2 == 0
					cse.Procs = pick(r, 2, 16)
					cse.TimeoutMS = 60000
					cs = append(cs, cse)
					continue
				}
				iv := pick(r, 100, 150, 300)
				nEv := 2 + r.IntN(3)
				p := c09Params{Interval: iv * 1000, StopAt: -1, StallAt: -1}
				for k := 0; k <= nEv+2; k++ {
					p.Values = append(p.Values, 3+2*k+k*16)
				}
				// the last tick inside the run falls 12-28 ms before the point at which triggering stops
				p.Spec = engine.Spec{Mode: "custom", CustomIntervalUS: iv * 1000, CustomRates: p.Values, Concurrency: 256, MaxDurationMS: (nEv-1)*iv + 10 + 12 + r.IntN(17), IgnoreDropped: true}
				p.Desc = fmt.Sprintf("last-tick interval=%dms evaluations=%d max-duration=%dms", iv, nEv, p.Spec.MaxDurationMS)
				cse := core.MkCase("C09", "lasttick", i, seed, p)
				cse.Race = i%3 == 0
				cse.Procs = pick(r, 2, 16)
				cse.TimeoutMS = 60000
				cs = append(cs, cse)
			}
			nf := 6
			if tier == "thorough" {
				nf = 30
			}
			for i := 0; i < nf; i++ {
				mode := pick(r, "custom", "constant", "staged", "gaussian")
				p := c09Params{Spec: engine.RateSpec(mode, 3, 3600_000, 4), Desc: "first-evaluation mode=" + mode}
				p.Spec.MaxDurationMS = 8000
				p.Spec.IgnoreDropped = true
				cse := core.MkCase("C09", "first", i, seed, p)
				cse.Race = i%2 == 0
				cse.Procs = pick(r, 1, 16)
				cse.TimeoutMS = 60000
				cs = append(cs, cse)
			}
			// the first evaluation is made when triggering starts, however long the rest of the start-up takes: a pool of
			// 100000 workers, tick interval 50 ms
			npf := 2
			if tier == "thorough" {
				npf = 6
			}
			for i := 0; i < npf; i++ {
				mode := pick(r, "custom", "constant", "staged")
				p := c09Params{Spec: engine.RateSpec(mode, 1, 50, 100000), Desc: "prompt-first-evaluation mode=" + mode + " c=100000 interval=50ms"}
				p.Spec.MaxDurationMS = 20000
				p.Spec.IgnoreDropped = true
				cse := core.MkCase("C09", "promptfirst", i, seed, p)
				cse.Solo = true
				cse.Procs = 16
				cse.TimeoutMS = 120000
				cs = append(cs, cse)
			}
			// a triggering that starts right after another one ended with a tick still undelivered (its last evaluation was
			// slow and the run was over when it returned): the new one keeps its own cadence from its first evaluation on
			naf := 2
			if tier == "thorough" {
				naf = 8
			}
			for i := 0; i < naf; i++ {
				mode := pick(r, "custom", "constant", "staged")
				p := c09Params{Desc: "aftermath mode=" + mode, Spec: engine.RateSpec(mode, 1, 20, 2)}
				cse := core.MkCase("C09", "aftermath", i, seed, p)
				cse.Solo = true
				cse.TimeoutMS = 60000
				cs = append(cs, cse)
			}
			nz := 6
			if tier == "thorough" {
				nz = 30
			}
			for i := 0; i < nz; i++ {
				first := 2 + r.IntN(9)
				p := c09Params{Values: []int{first, 0, 0, 0, 0, 0, 0, 0}, StopAt: 5, Interval: pick(r, 5000, 20000)}
				p.Spec = engine.Spec{Mode: "custom", CustomIntervalUS: p.Interval, CustomRates: p.Values, Concurrency: 1, MaxDurationMS: 60000, IgnoreDropped: true}
				p.Desc = fmt.Sprintf("zero-tick first=%d interval=%dus", first, p.Interval)
				cse := core.MkCase("C09", "zero", i, seed, p)
				cse.Race = i%2 == 0
				cse.Procs = pick(r, 1, 16)
				cse.TimeoutMS = 60000
				cs = append(cs, cse)
			}
			nft := 6
			if tier == "thorough" {
				nft = 40
			}
			for i := 0; i < nft; i++ {
				p := c09Params{Interval: pick(r, 1, 2, 5, 20), StopAt: 20000 + r.IntN(20000)}
				p.Spec = engine.Spec{Mode: "custom", CustomIntervalUS: p.Interval, Concurrency: pick(r, 64, 256), MaxDurationMS: 60000, IgnoreDropped: true}
				p.Desc = fmt.Sprintf("fastticks interval=%dus c=%d stopAt=%d", p.Interval, p.Spec.Concurrency, p.StopAt)
				cse := core.MkCase("C09", "fastticks", i, seed, p)
				cse.Race = i%3 == 2
				cse.Procs = pick(r, 4, 16)
				cse.TimeoutMS = 90000
				cs = append(cs, cse)
			}
			return cs
		},
		Kinds:  map[string]core.RunFunc{"cadence": c09Cadence, "first": c09First, "promptfirst": c09PromptFirst, "aftermath": c09Aftermath, "zero": c09Zero, "fastticks": c09FastTicks, "lasttick": c09LastTick, "filestage": c09FileStage, "builder": c09Builder, "clitwice": c09CLITwice, "deadfirst": c09DeadFirst},
		Floors: map[string]int64{"evaluations_checked": 300, "sum_checked_runs": 10, "first_runs": 4, "zero_runs": 4},
	})
}

// c09LastTick: a run that ends by max-duration 12-28 ms after its last tick. Every evaluation made at least 8 ms
// before the deadline f1 armed for triggering is a tick whose value was requested: with idle workers and instant
// bodies, started + dropped covers the sum of those values (evaluations closer to the deadline may go either way).
func c09LastTick(c *core.Case, o *core.Outcome) {
	var p c09Params
	c.Params(&p)
	l := engine.NewLog()
	var started atomic.Int64
	scenario := func(t *f1testing.T) f1testing.RunFn {
		return func(t *f1testing.T) { started.Add(1) }
	}
	var mu sync.Mutex
	var deadline time.Time
	var trigCtx context.Context
	var sure, all, before, committed int64
	var nSure, nAll, nCommitted int
	hooks := &engine.Hooks{
		OnTrigger: func(ctx context.Context) {
			mu.Lock()
			deadline, _ = ctx.Deadline()
			trigCtx = ctx
			mu.Unlock()
		},
		OnRate: func(k int, _ time.Time, v int) int {
			now := time.Now()
			mu.Lock()
			if trigCtx != nil && trigCtx.Err() == nil {
				// triggering is still on at this evaluation: every earlier tick was handed over, and returned, while it was on
				committed, nCommitted = before, nAll
			}
			all += int64(v)
			before = all
			nAll++
			if !deadline.IsZero() && now.Before(deadline.Add(-8*time.Millisecond)) {
				sure += int64(v)
				nSure++
			}
			mu.Unlock()
			return v
		},
	}
	stopWatch := hiccups()
	r := engine.Execute(context.Background(), p.Spec, l, scenario, hooks, nil)
	worstHiccup := stopWatch()
	if r.NewErr != nil {
		o.Inconc("harness: cannot build run: %v", r.NewErr)
		return
	}
	su, fa, dr := resultCounts(r)
	got := int64(su + fa + dr)
	o.Events = int64(nAll) + started.Load()
	if deadline.IsZero() {
		o.Inconc("the trigger's context carried no deadline (%s)", p.Desc)
		return
	}
	if got < committed || got > all {
		o.Violate("lasttick-committed:"+p.Desc, "%d evaluations were followed by another one made while triggering was still on, so their ticks were handed over in time; their values sum to %d (all %d evaluations: %d); the run reports %d started + dropped: a tick's value did not become that tick's request (%s)", nCommitted, committed, nAll, all, got, p.Desc)
		return
	}
	if got < sure && worstHiccup > 3*time.Millisecond {
		o.Inconc("timers of this process fired up to %v late during the run: an evaluation 8 ms before the end may have been handed over after it (%s)", worstHiccup, p.Desc)
		return
	}
	if got < sure || got > all {
		o.Violate("lasttick:"+p.Desc, "%d evaluations were made at least 8 ms before triggering stopped and their values sum to %d (all %d evaluations: %d); the run reports %d started + dropped: a tick's value did not become that tick's request (%s)", nSure, sure, nAll, all, got, p.Desc)
		return
	}
	o.AddObs("evaluations_checked", int64(nAll))
	if nSure >= 2 || nCommitted >= 20 {
		o.AddObs("last_ticks_checked", 1)
		o.Sig("lasttick:interval=%dus:sure=%d:all=%d", p.Interval, nSure, nAll)
	}
	o.Sample = map[string]any{"case": p.Desc, "sure_evaluations": nSure, "all_evaluations": nAll, "sure_sum": sure, "reported": got}
}

// c09DeadFirst: the trigger's context has already ended when triggering starts; the rate is still evaluated
// once at that moment (and nothing is requested).
func c09DeadFirst(c *core.Case, o *core.Outcome) {
	var p c09Params
	c.Params(&p)
	l := engine.NewLog()
	var evals, started atomic.Int64
	scenario := func(t *f1testing.T) f1testing.RunFn {
		return func(t *f1testing.T) { started.Add(1) }
	}
	hooks := &engine.Hooks{OnRate: func(k int, _ time.Time, v int) int { evals.Add(1); return v }}
	r := engine.Execute(context.Background(), p.Spec, l, scenario, hooks, nil)
	if r.NewErr != nil {
		o.Inconc("harness: cannot build run: %v", r.NewErr)
		return
	}
	o.Events = evals.Load() + 1
	if evals.Load() != 1 {
		o.Violate("deadfirst:"+p.Desc, "triggering started with its context already over: the rate was evaluated %d times, expected exactly the one evaluation made as triggering starts (%s)", evals.Load(), p.Desc)
		return
	}
	if started.Load() != 0 {
		o.Violate("deadfirst-started:"+p.Desc, "%d iterations started although triggering was over before it began (%s)", started.Load(), p.Desc)
		return
	}
	o.AddObs("evaluations_checked", 1)
	o.Sig("deadfirst:%dms", p.Spec.MaxDurationMS)
}

func c09Cadence(c *core.Case, o *core.Outcome) {
	var p c09Params
	c.Params(&p)
	l := engine.NewLog()
	ctx, cancel := context.WithCancel(context.Background())
	defer cancel()
	var started atomic.Int64
	scenario := func(t *f1testing.T) f1testing.RunFn {
		return func(t *f1testing.T) {
			started.Add(1)
			if p.Spec.MaxIterations > 0 {
				// keeps the limit out of reach for the whole run, however long the ticks take to report what they discard
				time.Sleep(time.Millisecond)
			}
		}
	}
	type ev struct {
		k int
		t time.Duration
		v int
	}
	var mu sync.Mutex
	var evs []ev
	interval := time.Duration(p.Interval) * time.Microsecond
	hooks := &engine.Hooks{OnRate: func(k int, _ time.Time, v int) int {
		t := l.Now()
		mu.Lock()
		evs = append(evs, ev{k, t, v})
		mu.Unlock()
		if k == p.StallAt {
			time.Sleep(interval*5/2 + time.Millisecond)
		}
		if k == p.StopAt {
			cancel()
		}
		return v
	}}
	r := engine.Execute(ctx, p.Spec, l, scenario, hooks, nil)
	if r.NewErr != nil {
		o.Inconc("harness: cannot build run: %v", r.NewErr)
		return
	}
	o.Events = int64(len(evs)) + started.Load()
	if len(evs) == 0 {
		o.Violate("no-eval:"+p.Desc, "the rate was never evaluated (%s)", p.Desc)
		return
	}
	for i, e := range evs {
		if e.k != i {
			o.Violate("harness-order:"+p.Desc, "evaluation order broken")
			return
		}
		if i == 0 {
			continue
		}
		min := time.Duration(i) * interval
		if e.t-evs[0].t < min {
			o.Violate("cadence:"+p.Desc, "evaluation %d happened %v after the first evaluation, earlier than %d x interval %v = %v: more than 1+floor(e/interval) evaluations by elapsed time e (%s)", i, e.t-evs[0].t, i, interval, min, p.Desc)
			return
		}
		o.AddObs("evaluations_checked", 1)
	}
	// Evaluations after the stop are possible (when the ticker and the cancellation are both ready the
	// worker's select may pick the tick); what must not happen is that their values reach the pool,
	// which the sum below decides.
	// value pass-through by conservation (custom mode: concurrency >= max value, instant bodies)
	if p.Spec.Mode == "custom" && len(evs) >= p.StopAt+1 {
		sum := 0
		for _, e := range evs[:p.StopAt] {
			sum += e.v
		}
		su, fa, dr := resultCounts(r)
		if p.Spec.MaxIterations > 0 && su+fa >= p.Spec.MaxIterations {
			// requests that arrive after the limit was reached are abandoned by design, not dropped: the sum says nothing then
			o.Inconc("the limit of %d iterations was reached during the run (%s)", p.Spec.MaxIterations, p.Desc)
			return
		}
		if int(su+fa+dr) != sum {
			o.Violate("sum:"+p.Desc, "evaluations before the stop returned %v (sum %d) but %d iterations were started and %d dropped (total %d): a tick's value did not reach the pool unchanged (%s)", p.Values[:p.StopAt], sum, su+fa, dr, su+fa+dr, p.Desc)
			return
		}
		if int64(su+fa) != started.Load() {
			o.Violate("sum-started:"+p.Desc, "result reports %d started, bodies ran %d (%s)", su+fa, started.Load(), p.Desc)
			return
		}
		o.AddObs("sum_checked_runs", 1)
	}
	if len(evs) >= 3 {
		cc := "small"
		if p.Spec.Concurrency >= 512 {
			cc = "large"
		}
		o.Sig("cadence:mode=%s:iv=%dus:c=%s:stall=%v:procs=%d", p.Spec.Mode, p.Interval, cc, p.StallAt >= 0, c.Procs)
	}
	gaps := []string{}
	for i := 1; i < len(evs) && i < 6; i++ {
		gaps = append(gaps, (evs[i].t - evs[0].t).String())
	}
	o.Sample = map[string]any{"case": p.Desc, "evaluations": len(evs), "offsets_from_first": gaps, "started": started.Load()}
}

func c09First(c *core.Case, o *core.Outcome) {
	var p c09Params
	c.Params(&p)
	l := engine.NewLog()
	ctx, cancel := context.WithCancel(context.Background())
	defer cancel()
	var started, evals atomic.Int64
	scenario := func(t *f1testing.T) f1testing.RunFn {
		return func(t *f1testing.T) {
			started.Add(1)
			cancel()
		}
	}
	var triggering atomic.Bool
	var early atomic.Int64
	hooks := &engine.Hooks{
		OnTrigger: func(context.Context) { triggering.Store(true) },
		OnRate: func(k int, _ time.Time, v int) int {
			evals.Add(1)
			if !triggering.Load() {
				early.Add(1)
			}
			if v < 1 {
				v = 1
			}
			return v
		}}
	r := engine.Execute(ctx, p.Spec, l, scenario, hooks, nil)
	if r.NewErr != nil {
		o.Inconc("harness: cannot build run: %v", r.NewErr)
		return
	}
	o.Events = evals.Load() + started.Load()
	if early.Load() > 0 {
		o.Violate("first-early:"+p.Desc, "the rate function was evaluated %d time(s) before triggering had started (while the trigger was being built, before the scenario's setup): the value requested at the start of the run is not one evaluated when triggering starts (%s)", early.Load(), p.Desc)
		return
	}
	if started.Load() == 0 {
		o.Violate("first:"+p.Desc, "tick interval 1h, max-duration 8s: the run ended after %v with %d evaluations and no iteration started - the first evaluation/request was not made when triggering started (%s)", r.TReturn-r.TCall, evals.Load(), p.Desc)
		return
	}
	if evals.Load() != 1 {
		o.Violate("first-count:"+p.Desc, "%d evaluations within a run far shorter than the 1h interval (%s)", evals.Load(), p.Desc)
		return
	}
	o.AddObs("first_runs", 1)
	o.Sig("first:mode=%s:procs=%d", p.Spec.Mode, c.Procs)
	o.Sample = map[string]any{"case": p.Desc, "evaluations": evals.Load(), "started": started.Load(), "run_ms": (r.TReturn - r.TCall).Milliseconds()}
}

// c09PromptFirst: the delay between the start of triggering and the first evaluation does not grow with the size of the
// pool. Three runs; the verdict is on the smallest delay (a stall of the machine would have to hit the same few
// statements three times in a row), against one whole tick interval.
func c09PromptFirst(c *core.Case, o *core.Outcome) {
	var p c09Params
	c.Params(&p)
	best := time.Duration(1 << 62)
	for rep := 0; rep < 3; rep++ {
		l := engine.NewLog()
		ctx, cancel := context.WithCancel(context.Background())
		var t0, t1 atomic.Int64
		base := time.Now()
		hooks := &engine.Hooks{
			OnTrigger: func(context.Context) { t0.CompareAndSwap(0, int64(time.Since(base))+1) },
			OnRate: func(k int, _ time.Time, v int) int {
				if t1.CompareAndSwap(0, int64(time.Since(base))+1) {
					cancel()
				}
				return 0
			},
		}
		r := engine.Execute(ctx, p.Spec, l, func(t *f1testing.T) f1testing.RunFn { return func(*f1testing.T) {} }, hooks, nil)
		cancel()
		if r.NewErr != nil {
			o.Inconc("harness: cannot build run: %v", r.NewErr)
			return
		}
		if t0.Load() == 0 || t1.Load() == 0 {
			o.Violate("first:"+p.Desc, "the run ended without a single evaluation (%s)", p.Desc)
			return
		}
		o.Events += 2
		if d := time.Duration(t1.Load() - t0.Load()); d < best {
			best = d
		}
	}
	if best > 50*time.Millisecond {
		o.Violate("first-late:"+p.Desc, "in each of 3 runs the first evaluation came more than a whole tick interval (50 ms) after triggering had started (smallest delay %v): the evaluation due at the start was held up by the rest of the start-up (%s)", best, p.Desc)
		return
	}
	o.AddObs("prompt_first_runs", 3)
	o.Sig("promptfirst:mode=%s", p.Spec.Mode)
	o.Sample = map[string]any{"case": p.Desc, "smallest_delay_us": best.Microseconds()}
}

// c09Aftermath: eight pairs of triggerings in one process. The first of a pair (20 ms ticks) is ended during a slow
// evaluation, so that a tick of its ticker is due and undelivered when it ends; the second (150 ms ticks) starts at once
// and must satisfy t_k - t_0 >= k x interval like any other.
func c09Aftermath(c *core.Case, o *core.Outcome) {
	var p c09Params
	c.Params(&p)
	scenario := func(t *f1testing.T) f1testing.RunFn { return func(*f1testing.T) {} }
	for pair := 0; pair < 8; pair++ {
		{
			ctx, cancel := context.WithCancel(context.Background())
			spec := engine.RateSpec(p.Spec.Mode, 1, 20, 2)
			spec.IgnoreDropped = true
			hooks := &engine.Hooks{OnRate: func(k int, _ time.Time, v int) int {
				if k == 2 {
					cancel()
					time.Sleep(50 * time.Millisecond)
				}
				return v
			}}
			r := engine.Execute(ctx, spec, engine.NewLog(), scenario, hooks, nil)
			cancel()
			if r.NewErr != nil {
				o.Inconc("harness: cannot build run: %v", r.NewErr)
				return
			}
		}
		ctx, cancel := context.WithCancel(context.Background())
		l := engine.NewLog()
		interval := 150 * time.Millisecond
		spec := engine.RateSpec(p.Spec.Mode, 1, 150, 2)
		spec.IgnoreDropped = true
		var mu sync.Mutex
		var ts []time.Duration
		hooks := &engine.Hooks{OnRate: func(k int, _ time.Time, v int) int {
			mu.Lock()
			ts = append(ts, l.Now())
			mu.Unlock()
			if k == 2 {
				cancel()
			}
			return v
		}}
		r := engine.Execute(ctx, spec, l, scenario, hooks, nil)
		cancel()
		if r.NewErr != nil {
			o.Inconc("harness: cannot build run: %v", r.NewErr)
			return
		}
		mu.Lock()
		for i := 1; i < len(ts); i++ {
			if ts[i]-ts[0] < time.Duration(i)*interval {
				o.Violate("cadence-after:"+p.Desc, "pair %d: evaluation %d of a trigger with %v ticks happened %v after its first evaluation - it started right after a triggering that ended with a tick undelivered, and got that tick (%s)", pair, i, interval, ts[i]-ts[0], p.Desc)
				mu.Unlock()
				return
			}
			o.AddObs("evaluations_checked", 1)
		}
		o.Events += int64(len(ts))
		mu.Unlock()
	}
	o.AddObs("aftermath_pairs", 8)
	o.Sig("aftermath:mode=%s", p.Spec.Mode)
}

func c09Zero(c *core.Case, o *core.Outcome) {
	var p c09Params
	c.Params(&p)
	l := engine.NewLog()
	ctx, cancel := context.WithCancel(context.Background())
	defer cancel()
	var started atomic.Int64
	gate := make(chan struct{})
	var once sync.Once
	scenario := func(t *f1testing.T) f1testing.RunFn {
		return func(t *f1testing.T) {
			if started.Add(1) == 1 {
				<-gate
			}
		}
	}
	hooks := &engine.Hooks{OnRate: func(k int, _ time.Time, v int) int {
		if k == 3 {
			// ticks 1 and 2 (value 0) have been applied: let the held worker continue
			once.Do(func() { close(gate) })
		}
		if k == p.StopAt {
			cancel()
		}
		return v
	}}
	defer once.Do(func() { close(gate) })
	r := engine.Execute(ctx, p.Spec, l, scenario, hooks, nil)
	if r.NewErr != nil {
		o.Inconc("harness: cannot build run: %v", r.NewErr)
		return
	}
	su, fa, dr := resultCounts(r)
	o.Events = started.Load() + int64(l.Len())
	first := p.Values[0]
	if started.Load() != 1 || int(dr) != first-1 {
		o.Violate("zero-tick:"+p.Desc, "one worker held by its first iteration, tick values %v: expected 1 started and %d dropped (the zero-valued tick supersedes the %d pending requests); observed %d started (%d reported) and %d dropped (%s)", p.Values, first-1, first-1, started.Load(), su+fa, dr, p.Desc)
		return
	}
	o.AddObs("zero_runs", 1)
	o.Sig("zero:first=%d:procs=%d", first, c.Procs)
	o.Sample = map[string]any{"case": p.Desc, "started": started.Load(), "dropped": dr}
}

// c09FastTicks: the shortest legal intervals with many idle workers and tiny tick values - every
// evaluated value must still reach the pool unchanged: started + dropped == sum of the values
// evaluated before the stop, exactly.
func c09FastTicks(c *core.Case, o *core.Outcome) {
	var p c09Params
	c.Params(&p)
	if c.Race {
		p.StopAt /= 4
	}
	l := engine.NewLog()
	ctx, cancel := context.WithCancel(context.Background())
	defer cancel()
	var started atomic.Int64
	scenario := func(t *f1testing.T) f1testing.RunFn {
		return func(t *f1testing.T) { started.Add(1) }
	}
	var sum, evals atomic.Int64
	hooks := &engine.Hooks{CustomRate: func(k int, _ time.Time) int {
		if k >= p.StopAt {
			if k == p.StopAt {
				cancel()
			}
			return 1
		}
		v := 1 + k%2
		sum.Add(int64(v))
		evals.Add(1)
		return v
	}}
	r := engine.Execute(ctx, p.Spec, l, scenario, hooks, nil)
	if r.NewErr != nil {
		o.Inconc("harness: cannot build run: %v", r.NewErr)
		return
	}
	su, fa, dr := resultCounts(r)
	o.Events = evals.Load() + started.Load()
	if int64(su+fa+dr) != sum.Load() || int64(su+fa) != started.Load() {
		o.Violate("fastticks-sum:"+p.Desc, "%d evaluations before the stop requested %d iterations in total; %d started (%d bodies ran) and %d dropped = %d: a tick's value did not reach the pool unchanged (%s)", evals.Load(), sum.Load(), su+fa, started.Load(), dr, su+fa+dr, p.Desc)
		return
	}
	o.AddObs("evaluations_checked", evals.Load())
	o.AddObs("sum_checked_runs", 1)
	o.Sig("fastticks:iv=%dus:c=%d:procs=%d:race=%v", p.Interval, p.Spec.Concurrency, c.Procs, c.Race)
	o.Sample = map[string]any{"case": p.Desc, "evaluations": evals.Load(), "requested": sum.Load(), "started": su + fa, "dropped": dr}
}

// c09FileStage: `schedule: stage-start` some hundred milliseconds in the past, so that the plan is taken up inside its
// constant stage. From the start of triggering on, the stage's rate is evaluated once at once and then once per tick
// (evaluation k no earlier than k intervals after triggering started), and what the evaluations return is what is requested:
// committed evaluations <= started + dropped <= all evaluations.
func c09FileStage(c *core.Case, o *core.Outcome) {
	var p c09Params
	c.Params(&p)
	ago, per := time.Duration(p.Values[0])*time.Millisecond, p.Values[1]
	iv := time.Duration(p.Interval) * time.Microsecond
	y := fmt.Sprintf("scenario: verifScenario\nlimits:\n  max-duration: 900ms\n  concurrency: 16\n  max-iterations: 0\n  ignore-dropped: true\nschedule:\n  stage-start: %s\ndefault:\n  distribution: none\n  jitter: 0\nstages:\n- duration: 30s\n  mode: constant\n  rate: %d/%s\n",
		time.Now().Add(-ago).UTC().Format(time.RFC3339Nano), per, iv)
	l := engine.NewLog()
	var started atomic.Int64
	scenario := func(t *f1testing.T) f1testing.RunFn {
		return func(t *f1testing.T) { started.Add(1) }
	}
	var mu sync.Mutex
	var trigCtx context.Context
	var tStart time.Time
	var all, before, committed int64
	var nAll int
	early := ""
	hooks := &engine.Hooks{
		OnTrigger: func(ctx context.Context) { mu.Lock(); trigCtx, tStart = ctx, time.Now(); mu.Unlock() },
		StageRate: func(stage, k int, _ time.Time, v int) int {
			now := time.Now()
			mu.Lock()
			defer mu.Unlock()
			if tStart.IsZero() {
				if early == "" {
					early = fmt.Sprintf("evaluation %d of the stage was made before triggering had started", k)
				}
			} else if e := now.Sub(tStart); e < time.Duration(k)*iv && early == "" {
				early = fmt.Sprintf("evaluation %d of the stage was made %v after triggering started, %d tick intervals of %v cannot have passed", k, e, k, iv)
			}
			if trigCtx != nil && trigCtx.Err() == nil {
				committed = before
			}
			all += int64(v)
			before = all
			nAll++
			return v
		},
	}
	spec := engine.Spec{Mode: "filestages", YAML: y}
	r := engine.Execute(context.Background(), spec, l, scenario, hooks, nil)
	if r.NewErr != nil {
		o.Inconc("harness: cannot build run: %v", r.NewErr)
		return
	}
	mu.Lock()
	defer mu.Unlock()
	o.Events = int64(nAll) + started.Load()
	if early != "" {
		o.Violate("filestage-cadence:"+p.Desc, "%s (%s)", early, p.Desc)
		return
	}
	su, fa, dr := resultCounts(r)
	if got := int64(su + fa + dr); got < committed || got > all {
		o.Violate("filestage-sum:"+p.Desc, "the stage's rate was evaluated %d times and returned %d in all (%d by evaluations that were followed by another one while triggering was on); the run reports %d started + dropped (%s)", nAll, all, committed, got, p.Desc)
		return
	}
	if nAll < 3 {
		o.Inconc("only %d evaluations (%s)", nAll, p.Desc)
		return
	}
	o.AddObs("evaluations_checked", int64(nAll))
	o.Sig("filestage:interval=%dus", p.Interval)
	o.Sample = map[string]any{"case": p.Desc, "evaluations": nAll, "requested": all, "started": su + fa, "dropped": dr}
}

// c09Builder: a trigger built by the mode's own command-line builder from flags, with a flat profile of v per tick, plenty
// of workers and instant bodies, run for about seven intervals. Tick k is due no earlier than k intervals after triggering
// started, so at every instant x after that start at most v*(1+floor(x/interval)) iterations can have been started.
func c09Builder(c *core.Case, o *core.Outcome) {
	var p c09Params
	c.Params(&p)
	iv := time.Duration(p.Interval) * time.Microsecond
	v, variant := p.Values[0], p.Values[1]
	var name string
	var args []string
	switch variant {
	case 0:
		name, args = "constant", []string{"--rate", fmt.Sprintf("%d/%s", v, iv), "--distribution", "none"}
	case 1, 2:
		name, args = "staged", []string{"--stages", fmt.Sprintf("0s:%d,10m:%d", v, v), "-f", iv.String(), "--distribution", "none"}
		if variant == 2 {
			// the layout f1 documents for this flag ends in a literal +07:00 and is read as UTC
			args = append(args, "--startTime", time.Now().Add(-1700*time.Millisecond).UTC().Format("2006-01-02T15:04:05")+"+07:00")
		}
	default:
		name, args = "ramp", []string{"--start-rate", fmt.Sprintf("%d/%s", v, iv), "--end-rate", fmt.Sprintf("%d/%s", v+1, iv), "--ramp-duration", "10h", "--distribution", "none"}
	}
	l := engine.NewLog()
	var mu sync.Mutex
	var tStart time.Time
	var starts []time.Duration
	scenario := func(t *f1testing.T) f1testing.RunFn {
		return func(t *f1testing.T) {
			now := time.Now()
			mu.Lock()
			if !tStart.IsZero() {
				starts = append(starts, now.Sub(tStart))
			} else {
				starts = append(starts, -1)
			}
			mu.Unlock()
		}
	}
	hooks := &engine.Hooks{OnTrigger: func(context.Context) { mu.Lock(); tStart = time.Now(); mu.Unlock() }}
	spec := engine.Spec{Mode: "builder", BuilderName: name, BuilderArgs: args, Concurrency: 64, MaxDurationMS: int(7*iv/time.Millisecond) + 50, IgnoreDropped: true}
	r := engine.Execute(context.Background(), spec, l, scenario, hooks, nil)
	if r.NewErr != nil {
		o.Violate("builder-rejected:"+p.Desc, "valid flags %v rejected by the %s builder: %v", args, name, r.NewErr)
		return
	}
	mu.Lock()
	defer mu.Unlock()
	o.Events = int64(len(starts))
	per := v
	if name == "ramp" {
		per = v + 1
	}
	sort.Slice(starts, func(i, j int) bool { return starts[i] < starts[j] })
	for i, x := range starts {
		if x < 0 {
			o.Violate("builder-early:"+p.Desc, "an iteration started before triggering had (%s %v)", name, args)
			return
		}
		if allowed := per * (1 + int(x/iv)); i+1 > allowed {
			o.Violate("builder-cadence:"+p.Desc, "%d iterations had been started %v after triggering started; ticks of at most %d, one at once and one per %v, allow %d by then (%s %v)", i+1, x, per, iv, allowed, name, args)
			return
		}
	}
	if len(starts) < 3*v {
		o.Inconc("only %d iterations started (%s)", len(starts), p.Desc)
		return
	}
	o.AddObs("evaluations_checked", int64(len(starts)/max(v, 1)))
	o.Sig("builder:%s:variant=%d", name, variant)
	o.Sample = map[string]any{"case": p.Desc, "args": args, "iterations": len(starts)}
}

// c09CLITwice: one f1 instance executes `run constant --rate 40/100ms ...` and then `run constant ...` without a rate
// (the flag's default is 1/s) for 1.3 s. The second run ticks at once and one second later: it starts two iterations (three
// are allowed for); whatever the first command line said is not in force any more.
func c09CLITwice(c *core.Case, o *core.Outcome) {
	var p c09Params
	c.Params(&p)
	var n atomic.Int64
	inst := f1.New().WithLogger(slog.New(slog.NewTextHandler(io.Discard, nil))).Add("s", func(*f1testing.T) f1testing.RunFn {
		return func(*f1testing.T) { n.Add(1) }
	})
	if err := inst.ExecuteWithArgs([]string{"run", "constant", "--rate", "40/100ms", "--distribution", "none", "-c", "8", "-d", "350ms", "s"}); err != nil {
		o.Inconc("the first command line returned %v", err)
		return
	}
	first := n.Swap(0)
	if err := inst.ExecuteWithArgs([]string{"run", "constant", "--distribution", "none", "-c", "8", "-d", "1300ms", "s"}); err != nil {
		o.Inconc("the second command line returned %v", err)
		return
	}
	second := n.Load()
	o.Events = first + second
	if second > 3 {
		o.Violate("clitwice:"+p.Desc, "the second command line names no rate (default 1/s) and ran for 1.3 s: two ticks; it started %d iterations (the first command line, --rate 40/100ms for 350 ms, started %d) (%s)", second, first, p.Desc)
		return
	}
	if second == 0 {
		o.Inconc("the second run started nothing (%s)", p.Desc)
		return
	}
	o.AddObs("evaluations_checked", 2)
	o.Sig("clitwice")
	o.Sample = map[string]any{"case": p.Desc, "first_run_iterations": first, "second_run_iterations": second}
}
