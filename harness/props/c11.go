package props

import (
	"fmt"
	"github.com/form3tech-oss/f1/v2/internal/trigger/api"
	"github.com/form3tech-oss/f1/v2/internal/trigger/file"
	"github.com/form3tech-oss/f1/v2/internal/ui"
	"math"
	"strconv"
	"strings"
	"time"

	fgauss "github.com/form3tech-oss/f1/v2/internal/gaussian"
	"github.com/form3tech-oss/f1/v2/internal/trigger/gaussian"
	"github.com/form3tech-oss/f1/v2/verifharness/core"
)

// C11 — gaussian profile delivers the configured volume per window and peaks on time.

type c11Params struct {
	Sets     int `json:"sets"`
	MaxTicks int `json:"max_ticks"`
}

func init() {
	core.Register(&core.Property{
		ID: "C11",
		Rule: "cases are seeded batches of generated (volume, tick, ticks-per-window, peak, sigma, weights) sets evaluated over >= 2*len(weights) whole windows on window-aligned synthetic timestamps, " +
			"through NewCalculator.For and through CalculateGaussianRate.Rate; a set is non-trivial when its per-tick real rate is fractional somewhere (so the remainder carry matters) and the window sum is > 0; " +
			"distinct = distinct (api, #weights, tick, log10 volume, log2 ticks, peak position class, sigma class) classes observed",
		Assumptions: []string{
			"tick frequency divides the window, peak inside the window, sigma from one tick up to 12 windows, weights >= 0 with a positive first weight (the property's domain)",
			"'discretisation error' is the Riemann-sum bound V*(w/avg)*f*(TV(g)+g(R-f)+g(R))/covered plus one unit of carried remainder",
			"weights are matched in cyclic order from some offset; absolute alignment is not assumed",
		},
		Gen: func(tier string, seed uint64) []core.Case {
			n, per, mt := 96, 150, 2000
			if tier == "thorough" {
				n, per, mt = 320, 150, 86400
			}
			var cs []core.Case
			for i := 0; i < n; i++ {
				cs = append(cs, core.MkCase("C11", "gauss", i, seed, c11Params{Sets: per, MaxTicks: mt}))
			}
			return cs
		},
		Kinds:  map[string]core.RunFunc{"gauss": c11Run},
		Floors: map[string]int64{"sets_nontrivial": 500, "windows": 2000},
	})
}

func c11Run(c *core.Case, o *core.Outcome) {
	var p c11Params
	c.Params(&p)
	r := c.Rng("gauss")
	// (ticks shorter than a millisecond are as legal as any: the flag, the config file and the calculator take any positive duration)
	freqs := []time.Duration{100 * time.Millisecond, time.Second, 5 * time.Second, time.Minute, time.Minute, 5 * time.Minute, 10 * time.Minute,
		100 * time.Microsecond, 250 * time.Microsecond, 500 * time.Microsecond, 1500 * time.Microsecond, 7 * time.Millisecond,
		// (and ticks that are no whole number of tenths of a second)
		150 * time.Millisecond, 250 * time.Millisecond, 1250 * time.Millisecond}
	worst := 0.0
	for si := 0; si < p.Sets && o.Verdict != core.Violated; si++ {
		f := freqs[r.IntN(len(freqs))]
		// ticks per window: log-uniform in [2, MaxTicks]
		n := int(math.Exp(r.Float64()*math.Log(float64(p.MaxTicks)/2))*2 + 0.5)
		if n < 2 {
			n = 2
		}
		if n > p.MaxTicks {
			n = p.MaxTicks
		}
		if f >= time.Minute && n > 3000 {
			n = 3000
		}
		R := time.Duration(n) * f
		vol := math.Floor(math.Exp(r.Float64() * math.Log(1e7)))
		if r.IntN(10) == 0 {
			vol = float64(1 + r.IntN(20))
		}
		if r.IntN(8) == 0 {
			// large volumes (e.g. what --peak-rate 1400/s yields) with any tick
			vol = math.Floor(1e7 * math.Exp(r.Float64()*math.Log(100)))
		}

		var peak time.Duration
		switch r.IntN(5) {
		case 0:
			peak = 0
		case 1:
			peak = R - f
		case 2:
			peak = time.Duration(r.Int64N(int64(R)))
		default:
			peak = time.Duration(r.IntN(n)) * f
		}
		sigma := f + time.Duration(r.Float64()*float64(R-f))
		switch r.IntN(5) {
		case 0:
			sigma = f
		case 1:
			sigma = R
		case 2:
			// curves much broader than the window: only a slice of the bell falls inside it
			sigma = time.Duration(float64(R) * (1 + r.Float64()*11))
		}
		nw := 0
		if r.IntN(2) == 0 {
			nw = 1 + r.IntN(4)
		}
		weights := make([]float64, nw)
		ws := make([]string, nw)
		for i := range weights {
			weights[i] = float64(1+r.IntN(40)) / 4
			if r.IntN(6) == 0 {
				weights[i] = 0.01 + r.Float64()*5
			}
			if nw >= 2 && i > 0 && r.IntN(5) == 0 {
				weights[i] = 0 // e.g. a weekend without load; the first weight stays positive
			}
			ws[i] = strconv.FormatFloat(weights[i], 'g', -1, 64)
			weights[i], _ = strconv.ParseFloat(ws[i], 64)
		}
		viaRates := r.IntN(2) == 0
		viaFlags := r.IntN(6) == 0
		if viaFlags {
			// through the command's flag set; 86400 happens to be the flag's default value and is a volume like any other
			viaRates = false
			switch r.IntN(4) {
			case 0, 1:
				vol = 86400
			case 2:
				// --volume is a float: a fraction of an iteration per window is carried like any other remainder
				vol = float64(1+r.IntN(40)) + []float64{0.5, 0.25, 0.4, 0.75}[r.IntN(4)]
			}
		}
		desc := fmt.Sprintf("vol=%g f=%v n=%d peak=%v sigma=%v weights=[%s] api=%v", vol, f, n, peak, sigma, strings.Join(ws, ","), viaRates)

		var rate func(time.Time) int
		fileYAML := ""
		if !viaFlags && nw == 0 && r.IntN(6) == 0 {
			// a config-file stage that says "no weights" (an explicitly empty list) under a default section with weights
			y := fmt.Sprintf("scenario: s\nlimits:\n  max-duration: 10000h\n  concurrency: 1\n  max-iterations: 0\n  ignore-dropped: true\ndefault:\n  distribution: none\n  jitter: 0\n  weights: \"1,3\"\nstages:\n- duration: 9000h\n  mode: gaussian\n  volume: %s\n  repeat: %s\n  iteration-frequency: %s\n  peak: %s\n  standard-deviation: %s\n  weights: \"\"\n",
				strconv.FormatFloat(vol, 'f', -1, 64), R, f, peak, sigma)
			rs, perr := file.ParseConfigFile([]byte(y), time.Now())
			desc += " via a config-file stage with weights \"\" under default weights 1,3"
			judged := 0
			if unit := map[bool]time.Duration{true: time.Second, false: time.Millisecond}[peak >= 2*time.Second]; peak >= 2*time.Millisecond && r.IntN(2) == 0 {
				// the peak comes from the default section, and an earlier stage of the plan inherits it too although its own
				// window is not longer than that offset (that stage is outside the property and is not judged)
				r1 := peak.Truncate(unit)
				y2 := strings.Replace(y, "  weights: \"1,3\"\n", fmt.Sprintf("  weights: \"1,3\"\n  peak: %s\n", peak), 1)
				y2 = strings.Replace(y2, fmt.Sprintf("  peak: %s\n  standard-deviation: %s\n  weights: \"\"\n", peak, sigma), fmt.Sprintf("  standard-deviation: %s\n  weights: \"\"\n", sigma), 1)
				y2 = strings.Replace(y2, "stages:\n", fmt.Sprintf("stages:\n- duration: 1h\n  mode: gaussian\n  volume: 100\n  repeat: %s\n  iteration-frequency: %s\n  standard-deviation: %s\n  weights: \"\"\n", r1, unit, r1), 1)
				if rs2, perr2 := file.ParseConfigFile([]byte(y2), time.Now()); perr2 == nil && len(rs2.Stages) == 2 && rs2.Stages[1].Rate != nil {
					rs, perr, judged = rs2, nil, 1
					desc += fmt.Sprintf(", its peak inherited from the default section, after a stage with repeat %s inheriting the same peak", r1)
					o.AddObs("file_stages_after_a_short_window_stage", 1)
				}
			}
			if perr != nil || len(rs.Stages) != judged+1 || rs.Stages[judged].Rate == nil {
				o.Violate("gauss-rejected:"+desc, "valid gaussian stage rejected: %s: %v", desc, perr)
				return
			}
			rate = rs.Stages[judged].Rate
			viaRates = false
			if judged == 0 {
				fileYAML = y
			}
		} else if viaFlags {
			b := gaussian.Rate(ui.NewDiscardOutput())
			args := []string{"--volume", strconv.FormatFloat(vol, 'f', -1, 64), "--repeat", R.String(), "--iteration-frequency", f.String(), "--peak", peak.String(),
				"--standard-deviation", sigma.String(), "--distribution", "none", "--jitter", "0"}
			if nw > 0 {
				args = append(args, "--weights", strings.Join(ws, ","))
			}
			desc += " via the command's flags"
			perr := b.Flags.Parse(args)
			var trig *api.Trigger
			if perr == nil {
				trig, perr = b.New(b.Flags)
			}
			if perr != nil || trig == nil || trig.DryRun == nil {
				o.Violate("gauss-rejected:"+desc, "valid gaussian settings rejected by the command's builder: %s: %v", desc, perr)
				return
			}
			rate = trig.DryRun
		} else if viaRates {
			wstr := strings.Join(ws, ",")
			if nw > 0 {
				// empty entries (a trailing, leading or doubled comma) are not weights
				switch r.IntN(6) {
				case 0:
					wstr += ","
				case 1:
					wstr = "," + wstr
				case 2:
					wstr = strings.Replace(wstr, ",", ",,", 1) + ","
				}
			}
			desc += fmt.Sprintf(" weights-string=%q", wstr)
			rates, err := gaussian.CalculateGaussianRate(vol, 0, R, f, peak, sigma, wstr, "none")
			if err != nil {
				o.Violate("gauss-rejected:"+desc, "valid gaussian settings rejected: %s: %v", desc, err)
				return
			}
			if nw > 0 && r.IntN(2) == 0 {
				// another weighted profile built afterwards in the same process (a later stage of the plan, say): this one keeps its own weights
				_, _ = gaussian.CalculateGaussianRate(1000, 0, R, f, peak, sigma, strings.Repeat("7,", nw-1)+"9", "none")
				desc += " (another profile with other weights built after it)"
			}
			if rates.IterationDuration != f {
				o.Violate("gauss-tick:"+desc, "tick interval %v, want %v (%s)", rates.IterationDuration, f, desc)
				return
			}
			rate = rates.Rate
		} else {
			calc, err := gaussian.NewCalculator(peak, sigma, f, weights, vol, R)
			if err != nil {
				o.Violate("gauss-rejected:"+desc, "valid gaussian settings rejected: %s: %v", desc, err)
				return
			}
			rate = calc.For
		}
		o.Events++

		// reference quantities, from the property's wording
		g, _ := fgauss.NewDistribution(float64(peak), float64(sigma))
		pdf := func(x float64) float64 { // independent of f1's PDF
			z := (x - float64(peak)) / float64(sigma)
			return math.Exp(-z*z/2) / (float64(sigma) * math.Sqrt(2*math.Pi))
		}
		_ = g
		cdf := func(x float64) float64 {
			return 0.5 * math.Erfc(-(x-float64(peak))/(float64(sigma)*math.Sqrt2))
		}
		covered := cdf(float64(R-f)) - cdf(0)
		gPeak := pdf(float64(peak))
		tv := (gPeak - pdf(0)) + (gPeak - pdf(float64(R)))
		avg := 1.0
		if nw > 0 {
			t := 0.0
			for _, w := range weights {
				t += w
			}
			avg = t / float64(nw)
		}
		// peak tick: tick nearest to the peak
		pk := int(math.Round(float64(peak) / float64(f)))
		if pk >= n {
			pk = n - 1
		}

		windows := 2
		if nw > 0 {
			windows = 2 * nw
		}
		if (sigma*80 < R || vol < 100) && n <= 20000 {
			// a narrow bell in a long window: the fraction left at the end of one window is owed to the next
			windows = max(windows, 8)
			if nw > 0 {
				windows = (windows + nw - 1) / nw * nw
			}
		}
		cycle := R
		if nw > 0 {
			cycle = R * time.Duration(nw)
		}
		t0 := time.Date(2024, 1, 1+r.IntN(200), 0, 0, 0, 0, time.UTC).Truncate(cycle)
		if t0.IsZero() {
			t0 = time.Unix(0, 0).UTC().Truncate(cycle).Add(cycle)
		}
		// start at a window chosen by seed (absolute alignment is f1's business)
		t0 = t0.Add(R * time.Duration(r.IntN(3)))
		if r.IntN(4) == 0 {
			// the same instants carried by timestamps of another zone (a process with TZ set, a chart start given with an offset)
			t0 = t0.In(time.FixedZone("elsewhere", pick(r, 19800, -18000, 3600, 45900, -34200)))
		}
		sums := make([]float64, windows)
		unitSum := 0.0 // Σ_k g(k f) * f  for one window (no weights, volume 1 ... times 1/covered later)
		for k := 0; k < n; k++ {
			unitSum += pdf(float64(time.Duration(k)*f)) * float64(f)
		}
		fractional := false
		for w := 0; w < windows && o.Verdict != core.Violated; w++ {
			vals := make([]int, n)
			for k := 0; k < n; k++ {
				v := rate(t0.Add(R*time.Duration(w) + f*time.Duration(k)))
				if v < 0 {
					o.Violate("gauss-negative:"+desc, "negative request %d at window %d tick %d (%s)", v, w, k, desc)
					return
				}
				vals[k] = v
				sums[w] += float64(v)
			}
			o.Events += int64(n)
			for k := 0; k < n; k++ {
				if vals[k] > vals[pk]+1 {
					o.Violate("gauss-peak:"+desc, "window %d tick %d requests %d, more than one above the peak tick %d which requests %d (%s)", w, k, vals[k], pk, vals[pk], desc)
					return
				}
			}
			o.AddObs("windows", 1)
		}
		if o.Verdict == core.Violated {
			return
		}
		if sub := int(f / (100 * time.Millisecond)); fileYAML != "" && sub >= 2 && f%(100*time.Millisecond) == 0 && n*sub <= 400000 {
			// the same stage with `distribution: regular`: the plan hands out a rate function together with the interval at which
			// it is to be called; called at that interval over the first two windows it requests what the stage requests
			// without a distribution, window by window (a distribution neither creates nor loses iterations)
			yr := strings.Replace(fileYAML, "  distribution: none\n", "  distribution: regular\n", 1)
			rsr, rerr := file.ParseConfigFile([]byte(yr), time.Now())
			if rerr != nil || len(rsr.Stages) != 1 || rsr.Stages[0].Rate == nil || rsr.Stages[0].IterationDuration <= 0 {
				o.Violate("gauss-regular-rejected:"+desc, "the same stage with distribution regular was not accepted: %v (%s)", rerr, desc)
				return
			}
			step := rsr.Stages[0].IterationDuration
			for w := 0; w < 2; w++ {
				got := 0.0
				for at := time.Duration(0); at < R; at += step {
					got += float64(rsr.Stages[0].Rate(t0.Add(R*time.Duration(w) + at)))
				}
				if got != sums[w] {
					o.Violate("gauss-file-regular:"+desc, "window %d: called every %v (the interval the plan gives for it) the stage with distribution regular requests %.0f iterations, the same stage without a distribution requests %.0f (%s)", w, step, got, sums[w], desc)
					return
				}
			}
			o.AddObs("file_stages_with_regular_distribution", 1)
		}
		// match weights in cyclic order from some offset
		offsets := 1
		if nw > 0 {
			offsets = nw
		}
		bestErr := math.Inf(1)
		matched := false
		var why string
		for off := 0; off < offsets; off++ {
			ok := true
			maxRatio := 0.0
			cumSum, cumReal := 0.0, 0.0
			for w := 0; w < windows; w++ {
				wf := 1.0
				if nw > 0 {
					wf = weights[(w+off)%nw] / avg
				}
				expect := vol * wf
				bound := vol*wf*float64(f)*(tv+pdf(float64(R-f))+pdf(float64(R)))/covered + 1 + 1e-6*expect + 1e-6
				errv := math.Abs(sums[w] - expect)
				// carry check: Σ v within 1 of Σ real rates (+ float slack)
				real := vol * wf * unitSum / covered
				carry := math.Abs(sums[w] - real)
				if errv > bound || carry >= 1+1e-9*real+1e-6 {
					ok = false
					why = fmt.Sprintf("offset %d window %d: requested %.0f, configured %.3f (discretisation bound %.3f), exact sum of real rates %.6f (carry error %.6f)", off, w, sums[w], expect, bound, real, carry)
					break
				}
				// the same across windows: what a window leaves unrequested is carried into the next one
				cumSum += sums[w]
				cumReal += real
				if cum := math.Abs(cumSum - cumReal); cum >= 1+1e-9*cumReal+1e-6 {
					ok = false
					why = fmt.Sprintf("offset %d: after %d windows %.0f requests were made, the real rates add up to %.6f (difference %.6f: a remainder was lost between windows)", off, w+1, cumSum, cumReal, cum)
					break
				}
				if errv/bound > maxRatio {
					maxRatio = errv / bound
				}
			}
			if ok {
				matched = true
				if maxRatio < bestErr {
					bestErr = maxRatio
				}
				break
			}
		}
		if !matched {
			o.Violate("gauss-volume:"+desc, "no cyclic alignment of the weights explains the per-window sums %v: %s (%s)", sums, why, desc)
			return
		}
		if n <= 4000 && si%2 == 0 {
			// the first window asked for again after the later ones (a chart drawn after a run, a wall clock set back): the
			// profile is a function of the instant, so the window requests what it requested before, give or take the carry
			re := 0.0
			for k := 0; k < n; k++ {
				v := rate(t0.Add(f * time.Duration(k)))
				if v < 0 {
					o.Violate("gauss-negative:"+desc, "negative request %d when window 0 is evaluated again, tick %d (%s)", v, k, desc)
					return
				}
				re += float64(v)
			}
			o.Events += int64(n)
			if math.Abs(re-sums[0]) > 2+2e-9*sums[0] {
				o.Violate("gauss-revisit:"+desc, "window 0 requested %.0f when first evaluated and %.0f when evaluated again after %d later windows (%s)", sums[0], re, windows-1, desc)
				return
			}
			o.AddObs("windows_revisited", 1)
		}
		if bestErr > worst {
			worst = bestErr
		}
		// non-trivial: fractional real rate somewhere and sum > 0
		rr := vol * float64(f) * gPeak / covered
		if rr != math.Floor(rr) {
			fractional = true
		}
		o.AddObs("sets", 1)
		if fractional && sums[0] > 0 {
			o.AddObs("sets_nontrivial", 1)
			pc := "mid"
			if peak == 0 {
				pc = "start"
			} else if peak >= R-f {
				pc = "end"
			}
			sc := "mid"
			if sigma == f {
				sc = "min"
			} else if sigma > 3*R {
				sc = "broad"
			} else if sigma >= R {
				sc = "max"
			}
			o.Sig("api=%v:w=%v:f=%v:v=1e%d:n=2^%d:peak=%s:sigma=%s", viaRates, nw > 0, f, int(math.Log10(vol)), int(math.Log2(float64(n)))/2*2, pc, sc)
		}
		if si == 0 {
			o.Sample = map[string]any{"settings": desc, "window_sums": sums, "error_over_bound": bestErr}
		}
	}
	o.MaxObs("max:worst_error_over_bound_permille", int64(worst*1000))
}
