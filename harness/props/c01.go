package props

import (
	"context"
	"fmt"
	"math"
	"math/rand/v2"
	"sync"
	"sync/atomic"
	"time"

	"github.com/anishathalye/porcupine"

	"github.com/form3tech-oss/f1/v2/internal/metrics"
	"github.com/form3tech-oss/f1/v2/internal/options"
	"github.com/form3tech-oss/f1/v2/internal/progress"
	"github.com/form3tech-oss/f1/v2/internal/run"
	"github.com/form3tech-oss/f1/v2/internal/run/views"
	f1testing "github.com/form3tech-oss/f1/v2/pkg/f1/testing"
	"github.com/form3tech-oss/f1/v2/verifharness/core"
	"github.com/form3tech-oss/f1/v2/verifharness/engine"
)

// C01 — every executed iteration is counted exactly once, with its true outcome.

type c01StressParams struct {
	Recorders int    `json:"recorders"`
	PerRec    int    `json:"per_recorder"`
	Cadence   string `json:"cadence"` // hot | 10us | 200us | 2ms
	Perturb   bool   `json:"perturb"`
}

type c01PorcParams struct {
	Histories int `json:"histories"`
}

type c01RunParams struct {
	Spec      engine.Spec `json:"spec"`
	FailEvery int         `json:"fail_every"`
	Body      string      `json:"body"`
	Snapshots bool        `json:"snapshots"` // harness calls SnapshotProgress concurrently (component kind)
	Reps      int         `json:"reps"`      // consecutive runs on the same metrics instance
	Desc      string      `json:"desc"`
	// TimeStages: every second iteration times two stages with t.Time, one of them with the empty name
	TimeStages bool `json:"time_stages,omitempty"`
	// Push: the run pushes to a (loopback) push gateway; TeardownFail: its scenario-level cleanup fails
	Push         bool `json:"push,omitempty"`
	TeardownFail bool `json:"teardown_fail,omitempty"`
	// SlowRefresh: the gateway takes 1.5 s to answer the periodic push that falls 5 s into the run, and the run ends meanwhile
	SlowRefresh bool `json:"slow_refresh,omitempty"`
	// ParkedTick: the first progress report is held while it collects the statistics (hook progress.collect.mid, second
	// arrival: successes already read, failures not yet) until well after the run has ended
	ParkedTick bool `json:"parked_tick,omitempty"`
}

var c01Outcomes = []metrics.ResultType{metrics.SuccessResult, metrics.FailedResult, metrics.DroppedResult}

func init() {
	core.Register(&core.Property{
		ID: "C01",
		Rule: "stress: W in 1..16 recorder goroutines record scripted outcome sequences on the real progress.Stats while a snapshotter calls Snapshot under a mutex (as Result does), hot or at a cadence; conservation at quiescence, interval bounds for every snapshot, period == difference of lifetimes. porcupine: 3 recorders x 4 records + 3 snapshots per history against a counter model per outcome. " +
			"integration: real TriggerPool + ActiveScenario + Result with concurrent SnapshotProgress; run: whole runs of every trigger mode with mixed outcomes (some > 1 s so f1's own progress tick fires), result vs ground truth vs registry at return and after a settle; f2: scripted stop-drain schedule at hook pool.stop.beforeDrain. " +
			"non-trivial = a snapshot overlapped an in-flight Record (stress), a history with a concurrent snapshot (porcupine), a run with >= 2 outcome kinds; distinct = distinct (kind, recorders/cadence | mode/outcome mix/GOMAXPROCS) classes",
		Assumptions: []string{"ground truth comes from atomics bumped inside harness callbacks before/after the observed call"},
		Gen: func(tier string, seed uint64) []core.Case {
			r := core.Rng(seed, "C01", tier)
			var cs []core.Case
			ns, per := 16, 60000
			if tier == "thorough" {
				ns, per = 96, 250000
			}
			for i := 0; i < ns; i++ {
				p := c01StressParams{Recorders: pick(r, 1, 2, 3, 4, 8, 16), PerRec: per, Cadence: pick(r, "hot", "hot", "10us", "200us", "2ms"), Perturb: i%3 == 0}
				cse := core.MkCase("C01", "stress", i, seed, p)
				cse.Race = i%2 == 0
				cse.Procs = pick(r, 2, 4, 16)
				cse.TimeoutMS = 120000
				if cse.Race {
					p.PerRec = per / 5
					cse.P = core.MustJSON(p)
				}
				cs = append(cs, cse)
			}
			np, hist := 8, 400
			if tier == "thorough" {
				np, hist = 50, 1000
			}
			for i := 0; i < np; i++ {
				cse := core.MkCase("C01", "porcupine", i, seed, c01PorcParams{Histories: hist})
				cse.Procs = pick(r, 2, 4, 16)
				cs = append(cs, cse)
			}
			nr := 30
			if tier == "thorough" {
				nr = 300
			}
			for i := 0; i < nr; i++ {
				mode := pick(r, "users", "constant", "staged", "ramp", "gaussian", "custom")
				if i%6 == 3 {
					mode = "filespan"
				}
				c := pick(r, 1, 2, 4, 16, 64)
				var spec engine.Spec
				if mode == "filespan" {
					c = pick(r, 1, 2, 4)
					spec = engine.FileSpanSpec(c, uint64(c*(40+r.IntN(20))))
				} else if mode == "users" {
					spec = engine.Spec{Mode: "users", Concurrency: c, MaxDurationMS: 60000}
				} else {
					spec = engine.RateSpec(mode, pick(r, 1, c, 3*c), 5, c)
				}
				long := i%6 == 5
				if mode != "filespan" {
					spec.MaxDurationMS = 150 + r.IntN(250)
				}
				if long && mode != "filespan" {
					spec.MaxDurationMS = 1300 + r.IntN(900)
				}
				if r.IntN(3) == 0 && !long && mode != "filespan" {
					spec.MaxIterations = uint64(50 + r.IntN(3000))
				}
				spec.IgnoreDropped = true
				spec.Interactive, spec.Verbose = r.IntN(3) == 0, r.IntN(4) == 0
				if i%5 == 3 {
					// the iteration handles log into a logger that is disabled for every level
					spec.Verbose, spec.QuietLogger = true, true
				}
				p := c01RunParams{Spec: spec, FailEvery: pick(r, 0, 1, 2, 3, 10), Body: pick(r, "instant", "spin", "sleep", "yield"), Snapshots: i%2 == 0, Reps: 1}
				if mode == "filespan" {
					p.Body, p.Snapshots, p.FailEvery = "span", false, pick(r, 2, 3)
				}
				if !long && i%4 == 1 {
					p.Reps = 2 + r.IntN(2)
				}
				if i%3 != 0 {
					// static metric labels: 1..6 of them (the label values are rebuilt on every record)
					p.Spec.Labels = map[string]string{}
					for k := 0; k <= i%6; k++ {
						p.Spec.Labels[fmt.Sprintf("label_%d", k)] = fmt.Sprintf("value %d", k)
					}
				}
				p.Desc = fmt.Sprintf("mode=%s c=%d dur=%dms limit=%d failEvery=%d body=%s harnessSnapshots=%v labels=%d quietLogger=%v", mode, c, spec.MaxDurationMS, spec.MaxIterations, p.FailEvery, p.Body, p.Snapshots, len(p.Spec.Labels), spec.QuietLogger)
				kind := "run"
				if p.Snapshots {
					kind = "integration"
				}
				cse := core.MkCase("C01", kind, i, seed, p)
				cse.Race = true
				cse.Procs = pick(r, 1, 2, 16)
				cse.TimeoutMS = 90000
				cs = append(cs, cse)
			}
			// the process-wide metrics instance (what the command line uses), iterations that time stages of their
			// own (one with an empty name), and a push gateway that must receive the final counts also when the
			// scenario's teardown fails
			ng := 6
			if tier == "thorough" {
				ng = 36
			}
			for i := 0; i < ng; i++ {
				cc := pick(r, 1, 2, 4)
				spec := engine.Spec{Mode: "users", Concurrency: cc, MaxDurationMS: 60000, MaxIterations: uint64(20 + r.IntN(200)), IgnoreDropped: true, GlobalMetrics: true}
				if i%3 == 1 {
					spec = engine.RateSpec(pick(r, "constant", "staged"), cc, 5, cc)
					spec.MaxIterations, spec.MaxDurationMS, spec.IgnoreDropped, spec.GlobalMetrics = uint64(20+r.IntN(100)), 60000, true, true
				}
				p := c01RunParams{Spec: spec, FailEvery: pick(r, 0, 2, 3), Body: "instant", Reps: 1 + i%2, TimeStages: i%2 == 0, Push: i%3 != 1, TeardownFail: i%3 == 0}
				p.Desc = fmt.Sprintf("mode=%s c=%d limit=%d failEvery=%d global-metrics timeStages=%v push=%v teardownFail=%v", spec.Mode, cc, spec.MaxIterations, p.FailEvery, p.TimeStages, p.Push, p.TeardownFail)
				cse := core.MkCase("C01", "run", 6000+i, seed, p)
				cse.Race = i%2 == 0
				cse.Solo = true
				cse.TimeoutMS = 90000
				cs = append(cs, cse)
			}
			// a run that ends while its periodic metrics refresh (every 5 s) is still being answered by a slow gateway:
			// the finished run's counts still reach the gateway
			{
				spec := engine.Spec{Mode: "users", Concurrency: 2, MaxDurationMS: 5600, IgnoreDropped: true}
				p := c01RunParams{Spec: spec, FailEvery: 3, Body: "sleep", Reps: 1, Push: true, SlowRefresh: true}
				p.Desc = "mode=users c=2 dur=5600ms failEvery=3 body=sleep push=true slow periodic refresh at 5 s"
				cse := core.MkCase("C01", "run", 6500, seed, p)
				cse.TimeoutMS = 90000
				cs = append(cs, cse)
			}
			// a progress report that is still collecting when the run ends: the result at return carries the whole run
			for i := 0; i < 2; i++ {
				spec := engine.Spec{Mode: "users", Concurrency: 2 + i, MaxDurationMS: 1500, IgnoreDropped: true}
				if i == 1 {
					spec = engine.RateSpec("constant", 3, 5, 20)
					spec.MaxDurationMS, spec.IgnoreDropped = 1500, true
				}
				p := c01RunParams{Spec: spec, FailEvery: 3, Body: "sleep", Reps: 1, ParkedTick: true}
				p.Desc = fmt.Sprintf("mode=%s c=%d dur=1500ms failEvery=3 body=sleep first progress report held while collecting until after the end", spec.Mode, spec.Concurrency)
				cse := core.MkCase("C01", "run", 6600+i, seed, p)
				cse.Solo = true
				cse.TimeoutMS = 60000
				cs = append(cs, cse)
			}
			// helper goroutines that mark failure while their iteration is ending: whichever way such an
			// iteration is classified, it is classified once - exported counts equal the result's. Plain flavour
			// only: T.Fail reads an unsynchronised field that the iteration's teardown writes.
			nl := 4
			if tier == "thorough" {
				nl = 30
			}
			for i := 0; i < nl; i++ {
				cc := pick(r, 2, 4, 8)
				spec := engine.Spec{Mode: "users", Concurrency: cc, MaxDurationMS: 60000, MaxIterations: uint64(40000 + r.IntN(40000)), IgnoreDropped: true}
				if i%2 == 1 {
					spec = engine.RateSpec("constant", 200, 1, cc)
					spec.MaxIterations, spec.MaxDurationMS, spec.IgnoreDropped = uint64(20000+r.IntN(20000)), 60000, true
				}
				p := c01RunParams{Spec: spec, Body: "latemark", Reps: 1}
				p.Desc = fmt.Sprintf("mode=%s c=%d limit=%d body=latemark", spec.Mode, cc, spec.MaxIterations)
				cse := core.MkCase("C01", "run", 5000+i, seed, p)
				cse.Procs = 16
				cse.TimeoutMS = 90000
				cs = append(cs, cse)
			}
			nf := 4
			if tier == "thorough" {
				nf = 24
			}
			for i := 0; i < nf; i++ {
				cse := core.MkCase("C01", "f2", i, seed, map[string]int{"pending": pick(r, 2000, 20000, 60000)})
				cse.Race = i%2 == 0
				cse.Solo = true
				cse.TimeoutMS = 90000
				cs = append(cs, cse)
			}
			// very long soaks: the cumulative execution time of one outcome passes the capacity of a 64-bit nanosecond
			// sum (100000 busy workers reach it in about a day); the averages are then meaningless, the counts are not
			nsoak := 3
			if tier == "thorough" {
				nsoak = 24
			}
			for i := 0; i < nsoak; i++ {
				cse := core.MkCase("C01", "soak", i, seed, map[string]int{"waves": 40 + r.IntN(40), "workers": pick(r, 1, 2, 4, 8), "per_wave": 20000 + r.IntN(80000)})
				cse.Race = i%3 == 2
				cse.TimeoutMS = 90000
				cs = append(cs, cse)
			}
			return cs
		},
		Kinds:  map[string]core.RunFunc{"stress": c01Stress, "porcupine": c01Porcupine, "run": c01Run, "integration": c01Integration, "f2": c01F2, "soak": c01Soak},
		Floors: map[string]int64{"records": 200000, "snapshots_overlapping_record": 200, "porcupine_histories": 1000, "runs_two_outcomes": 8, "progress_lines": 3},
	})
}

func c01Stress(c *core.Case, o *core.Outcome) {
	var p c01StressParams
	c.Params(&p)
	stats := &progress.Stats{}
	var invoked, returned [3]atomic.Int64
	var wg sync.WaitGroup
	start := make(chan struct{})
	var stop atomic.Bool
	hc := engine.NewHookCtl(c.Seed + 11)
	if p.Perturb {
		hc.Perturb("progress.collect.mid", 0.2)
		hc.Install()
		defer hc.Uninstall()
	}
	for w := 0; w < p.Recorders; w++ {
		wg.Add(1)
		go func(w int) {
			defer wg.Done()
			rr := core.Rng(c.Seed, c.ID, "rec", fmt.Sprint(w))
			<-start
			for i := 0; i < p.PerRec; i++ {
				k := 0
				switch x := rr.IntN(10); {
				case x < 6:
					k = 0
				case x < 9:
					k = 1
				default:
					k = 2
				}
				invoked[k].Add(1)
				stats.Record(c01Outcomes[k], int64(1+rr.IntN(5000)))
				returned[k].Add(1)
			}
		}(w)
	}
	type snapRec struct {
		retBefore [3]int64
		invAfter  [3]int64
		life      [3]uint64
		period    uint64
		overlap   bool
	}
	var snaps []snapRec
	var smu sync.Mutex
	sdone := make(chan struct{})
	go func() {
		defer close(sdone)
		<-start
		for !stop.Load() {
			var s snapRec
			for k := 0; k < 3; k++ {
				s.retBefore[k] = returned[k].Load()
			}
			s.overlap = invoked[0].Load()+invoked[1].Load()+invoked[2].Load() > s.retBefore[0]+s.retBefore[1]+s.retBefore[2]
			smu.Lock()
			sn := stats.Snapshot(time.Second)
			smu.Unlock()
			for k := 0; k < 3; k++ {
				s.invAfter[k] = invoked[k].Load()
			}
			s.life = [3]uint64{sn.SuccessfulIterationDurations.Count, sn.FailedIterationDurations.Count, sn.DroppedIterationCount}
			s.period = sn.SuccessfulIterationDurationsForPeriod.Count
			if len(snaps) < 2_000_000 {
				snaps = append(snaps, s)
			}
			switch p.Cadence {
			case "10us":
				spin(10 * time.Microsecond)
			case "200us":
				time.Sleep(200 * time.Microsecond)
			case "2ms":
				time.Sleep(2 * time.Millisecond)
			}
		}
	}()
	close(start)
	wg.Wait()
	stop.Store(true)
	<-sdone
	smu.Lock()
	tot := stats.Total()
	smu.Unlock()
	desc := fmt.Sprintf("recorders=%d per=%d cadence=%s perturb=%v procs=%d", p.Recorders, p.PerRec, p.Cadence, p.Perturb, c.Procs)
	final := [3]uint64{tot.SuccessfulIterationDurations.Count, tot.FailedIterationDurations.Count, tot.DroppedIterationCount}
	names := []string{"successful", "failed", "dropped"}
	total := int64(0)
	for k := 0; k < 3; k++ {
		total += invoked[k].Load()
		if final[k] != uint64(invoked[k].Load()) {
			o.Violate("conservation:"+names[k], "%d %s records were made, the final totals report %d (%d lost/extra) after %d concurrent snapshots (%s)", invoked[k].Load(), names[k], final[k], invoked[k].Load()-int64(final[k]), len(snaps), desc)
			return
		}
	}
	overlaps := int64(0)
	var prev [3]uint64
	for i, s := range snaps {
		if s.overlap {
			overlaps++
		}
		for k := 0; k < 3; k++ {
			if s.life[k] < prev[k] {
				o.Violate("monotone:"+names[k], "snapshot %d: lifetime %s count went from %d to %d (%s)", i, names[k], prev[k], s.life[k], desc)
				return
			}
			if int64(s.life[k]) < s.retBefore[k] || int64(s.life[k]) > s.invAfter[k] {
				o.Violate("bounds:"+names[k], "snapshot %d: lifetime %s count %d outside [%d records returned before the call, %d invoked by its return] (%s)", i, names[k], s.life[k], s.retBefore[k], s.invAfter[k], desc)
				return
			}
		}
		if s.period != s.life[0]-prev[0] {
			o.Violate("period", "snapshot %d: period count %d != lifetime %d - previous lifetime %d (%s)", i, s.period, s.life[0], prev[0], desc)
			return
		}
		prev = s.life
	}
	o.Events = total + int64(len(snaps))
	o.AddObs("records", total)
	o.AddObs("snapshots", int64(len(snaps)))
	o.AddObs("snapshots_overlapping_record", overlaps)
	if overlaps > 0 {
		o.Sig("stress:rec=%d:cadence=%s:perturb=%v:procs=%d:race=%v", p.Recorders, p.Cadence, p.Perturb, c.Procs, c.Race)
	}
	o.Sample = map[string]any{"case": desc, "records": total, "snapshots": len(snaps), "snapshots_overlapping_in_flight_record": overlaps, "final": final}
}

func c01Porcupine(c *core.Case, o *core.Outcome) {
	var p c01PorcParams
	c.Params(&p)
	type in struct {
		snap    bool
		outcome int
	}
	model := porcupine.Model{
		Partition: func(h []porcupine.Operation) [][]porcupine.Operation {
			parts := make([][]porcupine.Operation, 3)
			for _, op := range h {
				k := op.Input.(in).outcome
				parts[k] = append(parts[k], op)
			}
			return parts
		},
		Init: func() any { return uint64(0) },
		Step: func(st, input, output any) (bool, any) {
			n := st.(uint64)
			if input.(in).snap {
				return output.(uint64) == n, n
			}
			return true, n + 1
		},
	}
	concurrent := int64(0)
	for h := 0; h < p.Histories; h++ {
		stats := &progress.Stats{}
		var ops []porcupine.Operation
		var mu sync.Mutex
		var clock atomic.Int64
		var wg sync.WaitGroup
		var smu sync.Mutex
		start := make(chan struct{})
		rr := core.Rng(c.Seed, c.ID, fmt.Sprint(h))
		recs := 2 + rr.IntN(3)
		for cl := 0; cl < recs; cl++ {
			wg.Add(1)
			seq := make([]int, 4)
			for i := range seq {
				seq[i] = rr.IntN(3)
			}
			go func(cl int, seq []int) {
				defer wg.Done()
				<-start
				for _, k := range seq {
					call := clock.Add(1)
					stats.Record(c01Outcomes[k], 1000)
					ret := clock.Add(1)
					mu.Lock()
					ops = append(ops, porcupine.Operation{ClientId: cl, Input: in{false, k}, Call: call, Output: uint64(0), Return: ret})
					mu.Unlock()
				}
			}(cl, seq)
		}
		wg.Add(1)
		go func() {
			defer wg.Done()
			<-start
			for i := 0; i < 3; i++ {
				call := clock.Add(1)
				smu.Lock()
				var sn progress.Snapshot
				if i == 2 {
					sn = stats.Total()
				} else {
					sn = stats.Snapshot(time.Second)
				}
				smu.Unlock()
				ret := clock.Add(1)
				vals := []uint64{sn.SuccessfulIterationDurations.Count, sn.FailedIterationDurations.Count, sn.DroppedIterationCount}
				mu.Lock()
				for k, v := range vals {
					ops = append(ops, porcupine.Operation{ClientId: 100 + k, Input: in{true, k}, Call: call, Output: v, Return: ret})
				}
				mu.Unlock()
			}
		}()
		close(start)
		wg.Wait()
		// final totals at quiescence
		tot := stats.Total()
		call := clock.Add(1)
		ret := clock.Add(1)
		for k, v := range []uint64{tot.SuccessfulIterationDurations.Count, tot.FailedIterationDurations.Count, tot.DroppedIterationCount} {
			ops = append(ops, porcupine.Operation{ClientId: 200 + k, Input: in{true, k}, Call: call, Output: v, Return: ret})
		}
		res := porcupine.CheckOperationsTimeout(model, ops, 20*time.Second)
		o.Events += int64(len(ops))
		o.AddObs("porcupine_histories", 1)
		// did a snapshot overlap a record?
		for _, a := range ops {
			if !a.Input.(in).snap {
				continue
			}
			for _, b := range ops {
				if !b.Input.(in).snap && b.Call < a.Return && a.Call < b.Return {
					concurrent++
					goto next
				}
			}
		}
	next:
		switch res {
		case porcupine.Illegal:
			o.Violate("porcupine-stats", "history of %d recorders x 4 records and 3 snapshots is not linearizable against a counter per outcome: %v", recs, ops)
			return
		case porcupine.Unknown:
			o.AddObs("porcupine_unknown", 1)
		}
	}
	o.AddObs("porcupine_histories_with_overlap", concurrent)
	o.Sig("porcupine:procs=%d:overlap=%v", c.Procs, concurrent > 0)
	o.Sample = map[string]any{"histories": p.Histories, "with_snapshot_overlapping_record": concurrent}
}

// lateMarks counts iterations whose outcome is decided by a helper goroutine racing with the end of the body.
var lateMarks atomic.Int64

func spinNS(ns int64) {
	for t0 := time.Now(); time.Since(t0) < time.Duration(ns); {
	}
}

var c01Flavours = []int{engine.BFail, engine.BFailNow, engine.BPanicString, engine.BErrorf, engine.BAssert, engine.BRequire, engine.BError, engine.BFatal, engine.BOtherFailNow, engine.BErrorNil, engine.BOtherRequire}

func c01Scenario(p *c01RunParams, passed, failed *atomic.Int64, salt uint64) f1testing.ScenarioFn {
	return func(t *f1testing.T) f1testing.RunFn {
		engine.OtherHandle.Store(t)
		if p.TeardownFail {
			t.Cleanup(func() { t.FailNow() })
		}
		return func(t *f1testing.T) {
			id := engine.IDOf(t)
			if p.Body == "latemark" {
				h := id*2654435761 + salt
				h ^= h >> 13
				lateMarks.Add(1)
				go func() {
					spinNS(int64(h % 1500))
					t.Fail()
				}()
				spinNS(int64((h >> 20) % 1500))
				return
			}
			if p.Body == "span" {
				// mark first, then outlive the stage: the mark must survive the next stage's pool
				if p.FailEvery > 0 && id%uint64(p.FailEvery) == 0 {
					failed.Add(1)
					t.Fail()
					engine.SpanSleep(id)
					return
				}
				engine.SpanSleep(id)
				passed.Add(1)
				return
			}
			bodyWork(p.Body, id*2654435761+salt)
			if p.TimeStages && id%2 == 0 {
				t.Time("", func() {})
				t.Time("step", func() {})
			}
			if p.FailEvery > 0 && id%uint64(p.FailEvery) == 0 {
				failed.Add(1)
				// every way of failing counts once as failed: marks, stopping marks, panics, marks that log,
				// a stopping failure raised through the handle captured in setup, Error(nil)
				fl := c01Flavours[(id/uint64(p.FailEvery))%uint64(len(c01Flavours))]
				engine.Behave(t, fl)
				return
			}
			passed.Add(1)
		}
	}
}

func c01Compare(o *core.Outcome, desc, when string, su, fa, dr uint64, passed, failed int64, ic map[string]uint64) bool {
	if int64(su) != passed || int64(fa) != failed {
		o.Violate("counts:"+desc, "%s: result reports %d successful / %d failed, %d bodies passed and %d failed (%s)", when, su, fa, passed, failed, desc)
		return false
	}
	if ic["success"] != su || ic["fail"] != fa || ic["dropped"] != dr {
		o.Violate("metrics:"+desc, "%s: metrics carry success=%d fail=%d dropped=%d, result reports %d/%d/%d (%s)", when, ic["success"], ic["fail"], ic["dropped"], su, fa, dr, desc)
		return false
	}
	return true
}

func c01Run(c *core.Case, o *core.Outcome) {
	var p c01RunParams
	c.Params(&p)
	var inst *metrics.Metrics
	base := p.Desc
	for rep := 0; rep < max(p.Reps, 1) && o.Verdict != core.Violated; rep++ {
		p.Desc = fmt.Sprintf("%s run %d/%d on one metrics instance", base, rep+1, max(p.Reps, 1))
		inst = c01RunOnce(c, o, p, inst)
		if inst == nil {
			return
		}
	}
}

func c01RunOnce(c *core.Case, o *core.Outcome, p c01RunParams, inst *metrics.Metrics) (ret *metrics.Metrics) {
	l := engine.NewLog()
	var passed, failed atomic.Int64
	ctx, cancel := context.WithCancel(context.Background())
	defer cancel()
	var gw *engine.Gateway
	if p.Push {
		gw = engine.NewGateway(200)
		defer gw.Close()
		if p.SlowRefresh {
			// pushes: after setup, the 5 s refresh (slow), the final one
			gw.DelayNth, gw.DelayFor = 2, 1500*time.Millisecond
		}
		p.Spec.PushGateway = gw.URL()
	}
	if p.ParkedTick {
		hc := engine.NewHookCtl(c.Seed)
		pk := hc.ParkNth("progress.collect.mid", 2)
		hc.Install()
		defer hc.Uninstall()
		go func() {
			select {
			case <-pk.Arrived:
				time.Sleep(1200 * time.Millisecond)
				pk.Release()
			case <-ctx.Done():
			}
		}()
		defer func() {
			select {
			case <-pk.Arrived:
				o.AddObs("reports_held_across_the_end", 1)
			default:
			}
		}()
	}
	r := engine.Execute(ctx, p.Spec, l, c01Scenario(&p, &passed, &failed, c.Rng("salt").Uint64()), nil, inst)
	if r.NewErr != nil {
		o.Inconc("harness: cannot build run: %v", r.NewErr)
		return
	}
	ret = r.Metrics
	su, fa, dr := resultCounts(r)
	fams, err := engine.Gather(r.Registry)
	if err != nil {
		o.Violate("gather", "gather: %v", err)
		return
	}
	if p.Body == "latemark" {
		n := lateMarks.Swap(0)
		ic := engine.IterationCounts(fams)
		if int64(su+fa) != n {
			o.Violate("latemark-total:"+p.Desc, "result reports %d successful + %d failed, %d bodies ran (%s)", su, fa, n, p.Desc)
			return
		}
		if ic["success"] != su || ic["fail"] != fa || ic["dropped"] != dr {
			o.Violate("latemark-metrics:"+p.Desc, "helper goroutines marked failure while their iteration was ending: metrics carry success=%d fail=%d dropped=%d, the result reports %d/%d/%d - some iteration was classified twice, differently (%s)", ic["success"], ic["fail"], ic["dropped"], su, fa, dr, p.Desc)
			return
		}
		o.Events += n
		o.AddObs("iterations", n)
		o.AddObs("late_mark_iterations", n)
		if su > 0 && fa > 0 {
			o.AddObs("late_mark_runs_both_outcomes", 1)
			o.Sig("run:latemark:mode=%s:c=%d", p.Spec.Mode, p.Spec.Concurrency)
		}
		o.Sample = map[string]any{"case": p.Desc, "successful": su, "failed": fa, "dropped": dr}
		return ret
	}
	if !c01Compare(o, p.Desc, "at return", su, fa, dr, passed.Load(), failed.Load(), engine.IterationCounts(fams)) {
		return
	}
	if gw != nil {
		n, last, bad := gw.Pushes()
		if n == 0 || bad > 0 {
			o.Violate("push-missing:"+p.Desc, "the run was given a push gateway; it received %d pushes (%d unreadable) (%s)", n, bad, p.Desc)
			return
		}
		if last["success"] != su || last["fail"] != fa || last["dropped"] != dr {
			o.Violate("push-stale:"+p.Desc, "the last of %d pushes to the gateway carried success=%d fail=%d dropped=%d, the finished run's result is %d/%d/%d: the exported counts are not the run's (%s)", n, last["success"], last["fail"], last["dropped"], su, fa, dr, p.Desc)
			return
		}
		o.AddObs("pushes_checked", int64(n))
	}
	time.Sleep(250 * time.Millisecond)
	engine.TakeTotals(r.Result)
	su2, fa2, dr2 := resultCounts(r)
	fams, _ = engine.Gather(r.Registry)
	if su2 != su || fa2 != fa || dr2 != dr {
		o.Violate("late:"+p.Desc, "totals changed after the run returned: %d/%d/%d at return, %d/%d/%d 250 ms later - accounting was still running (%s)", su, fa, dr, su2, fa2, dr2, p.Desc)
		return
	}
	if !c01Compare(o, p.Desc, "250ms after return", su2, fa2, dr2, passed.Load(), failed.Load(), engine.IterationCounts(fams)) {
		return
	}
	// progress lines: counts non-decreasing and never ahead of ground truth at the end
	var lastS, lastF uint64
	lines := 0
	for _, e := range l.Events() {
		if e.Kind == "out.print" && containsAll(e.S, "✔") {
			lines++
			continue
		}
		if e.Kind != "out.log" || !containsAll(e.S, "|progress|") {
			continue
		}
		lines++
		s, f := attrUint(e.S, "iteration_stats.successful"), attrUint(e.S, "iteration_stats.failed")
		if s < lastS || f < lastF {
			o.Violate("progress-monotone:"+p.Desc, "progress line reports %d/%d after %d/%d (%s)", s, f, lastS, lastF, p.Desc)
			return
		}
		if s > su || f > fa {
			o.Violate("progress-ahead:"+p.Desc, "progress line reports %d/%d, more than the final %d/%d (%s)", s, f, su, fa, p.Desc)
			return
		}
		lastS, lastF = s, f
	}
	o.Events += passed.Load() + failed.Load() + int64(l.Len())
	o.AddObs("progress_lines", int64(lines))
	o.AddObs("iterations", passed.Load()+failed.Load())
	kinds := 0
	for _, v := range []uint64{su, fa, dr} {
		if v > 0 {
			kinds++
		}
	}
	if kinds >= 2 {
		o.AddObs("runs_two_outcomes", 1)
		o.Sig("run:mode=%s:kinds=%d:progress=%v:procs=%d:reps=%d", p.Spec.Mode, kinds, lines > 0, c.Procs, p.Reps)
	}
	o.Sample = map[string]any{"case": p.Desc, "successful": su, "failed": fa, "dropped": dr, "progress_lines": lines}
	return ret
}

// c01Integration: real pool + scenario + Result, harness snapshots concurrently with completions.
func c01Integration(c *core.Case, o *core.Outcome) {
	var p c01RunParams
	c.Params(&p)
	var passed, failed atomic.Int64
	env := engine.NewPoolEnv("integration", c01Scenario(&p, &passed, &failed, c.Rng("salt").Uint64()), p.Spec.MaxIterations, p.Spec.Labels)
	res := run.NewResult(options.RunOptions{Scenario: "integration", IgnoreDropped: true}, views.New(), env.Stats)
	ctx, cancel := context.WithCancel(context.Background())
	defer cancel()
	stop := make(chan struct{})
	var snaps atomic.Int64
	var sdone sync.WaitGroup
	sdone.Add(1)
	go func() {
		defer sdone.Done()
		for {
			select {
			case <-stop:
				return
			default:
			}
			res.SnapshotProgress(time.Second)
			_ = res.Progress()
			snaps.Add(1)
			spin(20 * time.Microsecond)
		}
	}()
	var requested int64
	var wctx context.Context
	if p.Spec.Mode == "users" {
		cp := env.Manager.NewContinuousPool(p.Spec.Concurrency)
		cp.Start(ctx)
		wctx = ctx
		go func() { time.Sleep(time.Duration(p.Spec.MaxDurationMS) * time.Millisecond / 2); cancel() }()
	} else {
		pool := env.Manager.NewTriggerPool(p.Spec.Concurrency)
		wctx = pool.Start(ctx)
		rr := c.Rng("ticks")
		deadline := time.Now().Add(time.Duration(p.Spec.MaxDurationMS) * time.Millisecond / 2)
		for time.Now().Before(deadline) && wctx.Err() == nil {
			n := rr.IntN(3*p.Spec.Concurrency + 2)
			pool.Trigger(wctx, n)
			requested += int64(n)
			spin(time.Duration(rr.IntN(800)) * time.Microsecond)
		}
		cancel()
	}
	<-env.Manager.WaitForCompletion()
	close(stop)
	sdone.Wait()
	engine.TakeTotals(res)
	s := res.Snapshot()
	su, fa, dr := s.SuccessfulIterationDurations.Count, s.FailedIterationDurations.Count, s.DroppedIterationCount
	fams, err := engine.Gather(env.Registry)
	if err != nil {
		o.Violate("gather", "gather: %v", err)
		return
	}
	desc := "integration " + p.Desc
	if !c01Compare(o, desc, "at completion", su, fa, dr, passed.Load(), failed.Load(), engine.IterationCounts(fams)) {
		return
	}
	o.Events = passed.Load() + failed.Load() + snaps.Load()
	o.AddObs("integration_snapshots", snaps.Load())
	o.AddObs("iterations", passed.Load()+failed.Load())
	kinds := 0
	for _, v := range []uint64{su, fa, dr} {
		if v > 0 {
			kinds++
		}
	}
	if kinds >= 2 {
		o.AddObs("runs_two_outcomes", 1)
		o.Sig("integration:mode=%s:kinds=%d:procs=%d", p.Spec.Mode, kinds, c.Procs)
	}
	o.Sample = map[string]any{"case": desc, "successful": su, "failed": fa, "dropped": dr, "requested": requested, "concurrent_snapshots": snaps.Load()}
}

// c01F2 replays the stop-drain schedule: the pool's stop path is parked before draining a large
// pending count while the only worker exits; the run must not take its totals before the drain.
func c01F2(c *core.Case, o *core.Outcome) {
	var pp map[string]int
	c.Params(&pp)
	pending := pp["pending"]
	hc := engine.NewHookCtl(c.Seed)
	park := hc.ParkNth("pool.stop.beforeDrain", 1)
	hc.Install()
	defer hc.Uninstall()
	l := engine.NewLog()
	ctx, cancel := context.WithCancel(context.Background())
	defer cancel()
	gate := make(chan struct{})
	var started atomic.Int64
	scenario := func(t *f1testing.T) f1testing.RunFn {
		return func(t *f1testing.T) {
			if started.Add(1) == 1 {
				<-gate
			}
		}
	}
	spec := engine.Spec{Mode: "custom", CustomIntervalUS: 3600_000_000, CustomRates: []int{pending}, Concurrency: 1, MaxDurationMS: 60000, IgnoreDropped: true}
	done := make(chan *engine.Run, 1)
	go func() { done <- engine.Execute(ctx, spec, l, scenario, nil, nil) }()
	if !waitUntil(10*time.Second, func() bool { return started.Load() == 1 }) {
		cancel()
		close(gate)
		park.Release()
		<-done
		o.Inconc("first body never started")
		return
	}
	cancel()
	select {
	case <-park.Arrived:
	case <-time.After(10 * time.Second):
		close(gate)
		park.Release()
		<-done
		o.Inconc("stop path never reached the hook")
		return
	}
	close(gate) // the only worker finishes its body and exits
	var r *engine.Run
	returnedWhileParked := false
	select {
	case r = <-done:
		returnedWhileParked = true
	case <-time.After(150 * time.Millisecond):
	}
	var atReturn [3]uint64
	if returnedWhileParked {
		atReturn[0], atReturn[1], atReturn[2] = resultCounts(r)
	}
	park.Release()
	if r == nil {
		r = <-done
		atReturn[0], atReturn[1], atReturn[2] = resultCounts(r)
	}
	time.Sleep(300 * time.Millisecond)
	fams, _ := engine.Gather(r.Registry)
	ic := engine.IterationCounts(fams)
	desc := fmt.Sprintf("f2 pending=%d", pending)
	want := uint64(pending) - uint64(started.Load())
	o.Events = int64(l.Len()) + started.Load()
	o.AddObs("hook:pool.stop.beforeDrain", 1)
	if atReturn[2] != want || ic["dropped"] != want {
		o.Violate("f2-stop-drain", "%d requests pending when triggering stopped, %d started: the result at return reports %d dropped (run returned while the stop path was parked before draining: %v), metrics after settling carry %d, expected %d (%s)", pending, started.Load(), atReturn[2], returnedWhileParked, ic["dropped"], want, desc)
		return
	}
	o.Sig("f2:pending=%d", pending)
	o.Sample = map[string]any{"case": desc, "dropped_at_return": atReturn[2], "metrics_dropped_after_settle": ic["dropped"], "returned_while_drain_parked": returnedWhileParked}
}

func containsAll(s string, subs ...string) bool {
	for _, x := range subs {
		if !contains(s, x) {
			return false
		}
	}
	return true
}

func contains(s, sub string) bool {
	return len(sub) == 0 || (len(s) >= len(sub) && indexOf(s, sub) >= 0)
}

func indexOf(s, sub string) int {
	for i := 0; i+len(sub) <= len(s); i++ {
		if s[i:i+len(sub)] == sub {
			return i
		}
	}
	return -1
}

// attrUint extracts key=<uint> from a captured log line "LEVEL|msg|k=v|k=v".
func attrUint(line, key string) uint64 {
	i := indexOf(line, "|"+key+"=")
	if i < 0 {
		return 0
	}
	j := i + len(key) + 2
	var n uint64
	for j < len(line) && line[j] >= '0' && line[j] <= '9' {
		n = n*10 + uint64(line[j]-'0')
		j++
	}
	return n
}

// c01Soak: waves of completions whose durations add up to more than 2^63 ns per outcome (several times over), a progress
// snapshot at the quiescent point after every wave and the totals at the end: the three counts are exact throughout.
func c01Soak(c *core.Case, o *core.Outcome) {
	var pp map[string]int
	c.Params(&pp)
	r := c.Rng("soak")
	waves, workers, per := pp["waves"], pp["workers"], pp["per_wave"]
	if c.Race {
		per /= 4
	}
	stats := &progress.Stats{}
	var s, f, d uint64
	// the duration of one iteration: chosen so that the successful sum passes 2^63 after about a third of the waves
	base := int64(math.MaxInt64) / int64(per) / int64(waves/3+1)
	passedAt := 0
	var sumS, sumF float64
	for w := 1; w <= waves; w++ {
		var wg sync.WaitGroup
		var ws, wf, wd atomic.Uint64
		for g := 0; g < workers; g++ {
			g := g
			seed := r.Uint64()
			wg.Add(1)
			go func() {
				defer wg.Done()
				rr := rand.New(rand.NewPCG(seed, uint64(g)))
				for k := g; k < per; k += workers {
					dur := base/2 + rr.Int64N(base)
					switch x := rr.IntN(100); {
					case x < 1:
						stats.Record(metrics.DroppedResult, 0)
						wd.Add(1)
					case x < 40:
						stats.Record(metrics.FailedResult, dur)
						wf.Add(1)
					default:
						stats.Record(metrics.SuccessResult, dur)
						ws.Add(1)
					}
				}
			}()
		}
		wg.Wait()
		s, f, d = s+ws.Load(), f+wf.Load(), d+wd.Load()
		sumS += float64(ws.Load()) * float64(base)
		sumF += float64(wf.Load()) * float64(base)
		var snap progress.Snapshot
		if w == waves {
			snap = stats.Total()
		} else {
			snap = stats.Snapshot(time.Second)
		}
		o.Events += int64(per)
		o.AddObs("records", int64(per))
		if sumS > math.MaxInt64 {
			o.AddObs("soak_snapshots_beyond_2^63ns", 1)
			if passedAt == 0 {
				passedAt = w
			}
		}
		gs, gf, gd := snap.SuccessfulIterationDurations.Count, snap.FailedIterationDurations.Count, snap.DroppedIterationCount
		if gs != s || gf != f || gd != d {
			o.Violate("soak-counts", "after wave %d of %d (%d workers; about %.3g ns of successful and %.3g ns of failed execution time so far, int64 holds %.3g): %d passed, %d failed, %d were dropped, the statistics state %d successful, %d failed, %d dropped", w, waves, workers, sumS, sumF, float64(math.MaxInt64), s, f, d, gs, gf, gd)
			return
		}
	}
	if passedAt > 0 {
		o.Sig("soak:workers=%d:wrapped-failed=%v", workers, sumF > math.MaxInt64)
	}
	o.Sample = map[string]any{"waves": waves, "per_wave": per, "workers": workers, "successful_sum_passed_2^63_at_wave": passedAt}
}
