package props

import (
	"context"
	"fmt"
	"runtime"
	"sync"
	"sync/atomic"
	"time"

	f1testing "github.com/form3tech-oss/f1/v2/pkg/f1/testing"
	"github.com/form3tech-oss/f1/v2/verifharness/core"
	"github.com/form3tech-oss/f1/v2/verifharness/engine"
)

// C04 — never more than `concurrency` iterations in flight; all workers usable.

type c04Params struct {
	Spec       engine.Spec `json:"spec"`
	Rendezvous bool        `json:"rendezvous"`
	Body       string      `json:"body"`
	PerTick    int         `json:"per_tick"`
	RunMS      int         `json:"run_ms"`
	Desc       string      `json:"desc"`
	// Huge: ticks of more than 2^31 requests with max-iterations = c; the run ends by its limit, the harness
	// does not cancel it (a stop would have to report the 2^32 leftovers one by one)
	Huge bool `json:"huge,omitempty"`
	// BigPool: tens of thousands of workers; the rendezvous is given time as long as the number in flight still grows
	BigPool bool `json:"big_pool,omitempty"`
	// Prelude: what happens before the rendezvous is attempted: "faults" (the first few iterations end by FailNow, a failed
	// require, Fatal, a panic), "slow" (the first iteration takes 5.5 s; the others pass through until it is over)
	Prelude string `json:"prelude,omitempty"`
}

func init() {
	core.Register(&core.Property{
		ID: "C04",
		Rule: "whole runs of constant, staged, ramp, gaussian, custom-tick and users triggers with concurrency c in {1,2,3,8,33,47,64,256}; bodies count themselves in and out (deferred, so also on panic) and register their handle in a live set. " +
			"upper-bound cases keep all workers busy (ticks of 10c, sleeping/spinning bodies); lower-bound cases block every body on a rendezvous that opens only when c bodies are in flight at once. " +
			"non-trivial = high-water mark reached c (upper) or the rendezvous opened (lower); distinct = distinct (mode, c, tick class, body, bound kind, GOMAXPROCS) classes",
		Assumptions: []string{
			"lower bound restated as bounded progress: violated only if the rendezvous has not opened after >= 10 s and >= 50 ticks each offering >= c requests while in-flight stayed < c",
			"file mode excluded, as in the property",
		},
		Gen: func(tier string, seed uint64) []core.Case {
			r := core.Rng(seed, "C04", tier)
			n := 60
			if tier == "thorough" {
				n = 600
			}
			var cs []core.Case
			for i := 0; i < n; i++ {
				c := pick(r, 1, 2, 3, 8, 33, 47, 64, 256)
				mode := pick(r, "constant", "staged", "ramp", "gaussian", "custom", "users")
				p := c04Params{Rendezvous: i%2 == 1, RunMS: 250 + r.IntN(200)}
				if p.Rendezvous {
					p.PerTick = pick(r, c, c+1, 2*c+2, 10*c)
					if mode == "gaussian" && p.PerTick < 2*c+2 {
						p.PerTick = 2*c + 2
					}
					p.Body = "gated"
				} else {
					p.PerTick = pick(r, 1, c-1, c, 10*c, 10*c)
					if p.PerTick < 1 {
						p.PerTick = 1
					}
					p.Body = pick(r, "instant", "spin", "sleep", "sleep", "panic-mix")
				}
				if p.PerTick > 3000 {
					p.PerTick = 3000
				}
				p.Spec = engine.RateSpec(mode, p.PerTick, 10, c)
				if mode == "users" {
					p.Spec = engine.Spec{Mode: "users", Concurrency: c, MaxDurationMS: 60000}
				}
				p.Spec.IgnoreDropped = true
				// output modes and far-away limits do not change how many workers there are
				p.Spec.Verbose = r.IntN(3) == 0
				// registered through CombineScenarios in a third of the cases: same handles, same bounds
				p.Spec.Combine = pick(r, 0, 0, 2)
				if r.IntN(3) == 0 {
					p.Spec.MaxIterations = []uint64{1 << 62, 1 << 63, 1<<63 + 1000, ^uint64(0)}[r.IntN(4)]
				}
				p.Desc = fmt.Sprintf("mode=%s c=%d perTick=%d body=%s rendezvous=%v verbose=%v max-iterations=%d combine=%d", mode, c, p.PerTick, p.Body, p.Rendezvous, p.Spec.Verbose, p.Spec.MaxIterations, p.Spec.Combine)
				cse := core.MkCase("C04", "run", i, seed, p)
				cse.Race = true
				cse.Procs = pick(r, 1, 2, 4, 16)
				cse.TimeoutMS = 60000
				cs = append(cs, cse)
			}
			// limits in the upper half of the uint64 range (often written to mean "no limit"): all workers usable
			for i, lim := range []uint64{1 << 63, 1<<63 + 1000, ^uint64(0)} {
				for j, mode := range []string{"users", "constant"} {
					if tier == "quick" && j == 1 && i != 2 {
						continue
					}
					c := pick(r, 2, 8, 64)
					p := c04Params{Rendezvous: true, Body: "gated", PerTick: 2 * c}
					p.Spec = engine.RateSpec(mode, p.PerTick, 10, c)
					if mode == "users" {
						p.Spec = engine.Spec{Mode: "users", Concurrency: c, MaxDurationMS: 60000}
					}
					p.Spec.IgnoreDropped, p.Spec.MaxIterations = true, lim
					p.Desc = fmt.Sprintf("mode=%s c=%d perTick=%d body=gated rendezvous=true max-iterations=%d", mode, c, p.PerTick, lim)
					cse := core.MkCase("C04", "run", 7500+i*2+j, seed, p)
					cse.Race = (i+j)%2 == 0
					cse.Procs = pick(r, 2, 16)
					cse.TimeoutMS = 60000
					cs = append(cs, cse)
				}
			}
			// pools of a few thousand workers (sizes that are no multiple of anything convenient): still one handle per
			// worker and never more than c at once
			nbig := 2
			if tier == "thorough" {
				nbig = 6
			}
			for i := 0; i < nbig; i++ {
				c := []int{1500, 2049, 3000, 1025, 4097, 2500}[i]
				mode := pick(r, "constant", "custom", "staged")
				p := c04Params{Body: "sleep", PerTick: c, RunMS: 700}
				p.Spec = engine.RateSpec(mode, p.PerTick, 20, c)
				p.Spec.IgnoreDropped = true
				p.Desc = fmt.Sprintf("mode=%s c=%d perTick=%d body=sleep rendezvous=false (large pool)", mode, c, p.PerTick)
				cse := core.MkCase("C04", "run", 7800+i, seed, p)
				cse.Solo = true
				cse.Procs = 16
				cse.TimeoutMS = 90000
				cs = append(cs, cse)
			}
			// pools beyond 2^16 workers (the flag has no upper bound): all of them usable at once
			for i := 0; i < map[string]int{"quick": 2, "thorough": 6}[tier]; i++ {
				c := []int{65537, 70001, 131073, 65600, 90000, 66000}[i]
				mode := []string{"users", "constant", "users", "custom", "staged", "users"}[i]
				p := c04Params{Rendezvous: true, Body: "gated", PerTick: c, BigPool: true}
				p.Spec = engine.RateSpec(mode, p.PerTick, 1000, c)
				if mode == "users" {
					p.Spec = engine.Spec{Mode: "users", Concurrency: c, MaxDurationMS: 120000}
				}
				p.Spec.MaxDurationMS, p.Spec.IgnoreDropped = 120000, true
				p.Desc = fmt.Sprintf("mode=%s c=%d perTick=%d body=gated rendezvous=true (pool beyond 2^16)", mode, c, p.PerTick)
				cse := core.MkCase("C04", "run", 7900+i, seed, p)
				cse.Solo = true
				cse.Procs = 16
				cse.TimeoutMS = 240000
				cs = append(cs, cse)
			}
			// all workers still usable after some of them executed iterations that ended badly, or a very long one
			for i := 0; i < map[string]int{"quick": 5, "thorough": 24}[tier]; i++ {
				c := pick(r, 3, 4, 8, 32)
				mode := pick(r, "users", "constant", "custom", "staged")
				p := c04Params{Rendezvous: true, Body: "gated", PerTick: c, Prelude: "faults"}
				if i%5 == 4 {
					p.Prelude = "slow"
				}
				if i%5 == 2 {
					// users with a limit and iterations of unequal length: one user is slow while the others do 10 iterations
					// each; the last 9 iterations still find all c users
					c, mode = pick(r, 3, 4, 5), "users"
					p.PerTick, p.Prelude = c, "uneven"
				}
				p.Spec = engine.RateSpec(mode, p.PerTick, 20, c)
				if mode == "users" {
					p.Spec = engine.Spec{Mode: "users", Concurrency: c, MaxDurationMS: 60000}
				}
				p.Spec.IgnoreDropped = true
				p.Spec.MaxFailures = 1 << 40
				if p.Prelude == "uneven" {
					p.Spec.MaxIterations = uint64(10 * c)
				}
				p.Desc = fmt.Sprintf("mode=%s c=%d perTick=%d body=gated rendezvous=true prelude=%s max-iterations=%d", mode, c, p.PerTick, p.Prelude, p.Spec.MaxIterations)
				cse := core.MkCase("C04", "run", 8000+i, seed, p)
				cse.Race = i%2 == 0
				cse.Procs = pick(r, 2, 16)
				cse.TimeoutMS = 90000
				cs = append(cs, cse)
			}
			// ticks far beyond 32 bits: every worker still gets its request
			nhu := 3
			if tier == "thorough" {
				nhu = 12
			}
			for i := 0; i < nhu; i++ {
				c := pick(r, 2, 8, 64)
				tick := pick(r, 1<<32+3, 1<<31, 1<<33+1, 3<<40)
				p := c04Params{Rendezvous: true, Body: "gated", PerTick: tick, Huge: true}
				p.Spec = engine.Spec{Mode: "custom", CustomIntervalUS: 200000, CustomRates: []int{tick}, Concurrency: c, MaxDurationMS: 60000, MaxIterations: uint64(c), IgnoreDropped: true}
				p.Desc = fmt.Sprintf("mode=custom c=%d perTick=%d (huge) max-iterations=%d rendezvous=true", c, tick, c)
				cse := core.MkCase("C04", "run", 7000+i, seed, p)
				cse.Race = i%2 == 0
				cse.Procs = pick(r, 2, 16)
				cse.TimeoutMS = 60000
				cs = append(cs, cse)
			}
			nr := 12
			if tier == "thorough" {
				nr = 64
			}
			for i := 0; i < nr; i++ {
				rp := c04RoundsParams{C: pick(r, 2, 3, 8, 33, 47, 64), Rounds: 1500, Perturb: i%2 == 0}
				if i%4 >= 2 {
					// many ticks offering less than the number of idle workers between the rounds
					rp.C, rp.Rounds, rp.Filler = pick(r, 8, 16, 64), 60, 1500
				}
				if i%6 == 4 {
					// a few ticks of several times c (instant bodies) directly before each round of exactly c
					rp.C, rp.Rounds, rp.Filler, rp.BigFiller = pick(r, 4, 8, 16), 150, 3, true
				}
				cse := core.MkCase("C04", "rounds", i, seed, rp)
				cse.Race = i%4 == 3
				cse.Procs = pick(r, 4, 16)
				cse.TimeoutMS = 120000
				cs = append(cs, cse)
			}
			// an iteration that is executing across the periodic metrics refresh (every 5 s, push gateway configured)
			// does not keep the other workers from executing
			for i := 0; i < 1; i++ {
				cse := core.MkCase("C04", "refresh", i, seed, map[string]int{"c": pick(r, 3, 6), "users": i % 2})
				cse.TimeoutMS = 90000
				cs = append(cs, cse)
			}
			// a tick that is busy reporting a huge discarded backlog must not keep idle workers from its own requests
			nbr := 1
			if tier == "thorough" {
				nbr = 4
			}
			for i := 0; i < nbr; i++ {
				cse := core.MkCase("C04", "busyreport", i, seed, map[string]int{"c": pick(r, 2, 4, 8), "backlog": 20000000})
				cse.Solo = true
				cse.TimeoutMS = 120000
				cs = append(cs, cse)
			}
			nh := 4
			if tier == "thorough" {
				nh = 24
			}
			for i := 0; i < nh; i++ {
				cse := core.MkCase("C04", "hotrounds", i, seed, c04RoundsParams{C: pick(r, 16, 32, 64), Rounds: 40000})
				cse.Race = i%4 == 3
				cse.Procs = pick(r, 4, 16)
				cse.TimeoutMS = 120000
				cs = append(cs, cse)
			}
			return cs
		},
		Kinds:  map[string]core.RunFunc{"run": c04Run, "rounds": c04Rounds, "hotrounds": c04HotRounds, "busyreport": c04BusyReport, "refresh": c04Refresh},
		Floors: map[string]int64{"rendezvous_opened": 12, "highwater_reached_c": 8, "rounds_all_workers_busy": 1500},
	})
}

func c04Run(c *core.Case, o *core.Outcome) {
	var p c04Params
	c.Params(&p)
	cc := int64(p.Spec.Concurrency)
	k := engine.NewTracker()
	l := engine.NewLog()
	ctx, cancel := context.WithCancel(context.Background())
	defer cancel()
	opened := make(chan struct{})
	var openOnce sync.Once
	var over atomic.Int64
	var ticksOffering atomic.Int64
	salt := c.Rng("body").Uint64()
	var preludeSeq atomic.Int64
	var preludeOver atomic.Bool
	scenario := func(t *f1testing.T) f1testing.RunFn {
		return func(t *f1testing.T) {
			if p.Prelude != "" && !preludeOver.Load() {
				ps := preludeSeq.Add(1)
				switch {
				case p.Prelude == "faults" && ps < cc:
					// c-1 iterations (spread over the workers as the pool sees fit) that f1 has to recover from
					if ps == cc-1 {
						defer preludeOver.Store(true)
					}
					engine.Behave(t, []int{engine.BFailNow, engine.BRequire, engine.BPanicString, engine.BFatal, engine.BPanicError}[ps%5])
				case p.Prelude == "slow" && ps == 1:
					time.Sleep(5500 * time.Millisecond)
					preludeOver.Store(true)
				case p.Prelude == "uneven" && ps == 1:
					// the slow user: its iteration lasts until the others have started 10 iterations each
					for deadline := time.Now().Add(8 * time.Second); preludeSeq.Load() < 10*(cc-1)+1 && time.Now().Before(deadline); {
						time.Sleep(time.Millisecond)
					}
					preludeOver.Store(true)
				default:
					time.Sleep(time.Millisecond)
				}
				return
			}
			defer k.Enter(t)()
			n := k.Inflight.Load()
			if n > cc {
				over.Store(n)
			}
			if p.Rendezvous {
				if n >= cc {
					openOnce.Do(func() { close(opened) })
				}
				select {
				case <-opened:
				case <-ctx.Done():
				}
				return
			}
			id := engine.IDOf(t)
			if p.Body == "panic-mix" {
				time.Sleep(time.Duration(id%3) * time.Millisecond)
				if id%4 == 0 {
					panic("planned")
				}
				if id%4 == 1 {
					t.FailNow()
				}
				return
			}
			bodyWork(p.Body, id*2654435761+salt)
		}
	}
	hooks := &engine.Hooks{OnRate: func(_ int, _ time.Time, v int) int {
		if int64(v) >= cc {
			ticksOffering.Add(1)
		}
		return v
	}}
	start := time.Now()
	done := make(chan *engine.Run, 1)
	go func() { done <- engine.Execute(ctx, p.Spec, l, scenario, hooks, nil) }()
	var r *engine.Run
	if p.Rendezvous && p.BigPool {
		// bounded progress, judged on the count in flight: it must keep growing until it reaches c. 20 s without any
		// growth while the trigger keeps offering >= c (users: always) is the violation; 150 s in all is inconclusive.
		last, lastChange := int64(-1), time.Now()
	wait:
		for {
			select {
			case <-opened:
				cancel()
				r = <-done
				break wait
			case r = <-done:
				break wait
			case <-time.After(500 * time.Millisecond):
			}
			if n := k.Inflight.Load(); n != last {
				last, lastChange = n, time.Now()
			}
			if time.Since(lastChange) > 20*time.Second && (p.Spec.Mode == "users" || ticksOffering.Load() >= 10) {
				cancel()
				r = <-done
				o.Violate("lower:"+p.Desc, "for 20 s (%d ticks each offering >= c=%d requests) exactly %d iterations stayed in flight at once (high-water %d, %d distinct handles), after %v in all: not all workers usable (%s)",
					ticksOffering.Load(), cc, last, k.HighWater.Load(), k.Handles(), time.Since(start), p.Desc)
				return
			}
			if time.Since(start) > 150*time.Second {
				cancel()
				r = <-done
				o.Inconc("rendezvous of %d not complete after 150 s (%d in flight, still changing) (%s)", cc, last, p.Desc)
				return
			}
		}
	} else if p.Rendezvous {
		patience := 12 * time.Second
		if p.Prelude == "slow" {
			patience = 20 * time.Second
		}
		select {
		case <-opened:
			if p.Huge {
				select {
				case r = <-done:
				case <-time.After(30 * time.Second):
					o.Inconc("the run did not end by its limit within 30 s after the rendezvous opened (%s)", p.Desc)
					return
				}
				break
			}
			cancel()
			r = <-done
		case r = <-done:
		case <-time.After(patience):
			stuck := k.Inflight.Load()
			cancel()
			r = <-done
			if r.NewErr != nil {
				o.Inconc("harness: cannot build run: %v", r.NewErr)
				return
			}
			el := time.Since(start)
			if p.Spec.Mode == "users" || ticksOffering.Load() >= 50 {
				o.Violate("lower:"+p.Desc, "after %v and %d ticks each offering >= c=%d requests only %d iterations were ever in flight at once (high-water %d, %d distinct handles): not all workers usable (%s)",
					el, ticksOffering.Load(), cc, stuck, k.HighWater.Load(), k.Handles(), p.Desc)
			} else {
				o.Inconc("rendezvous did not open but only %d ticks offered >= c (%s)", ticksOffering.Load(), p.Desc)
			}
			return
		}
	} else {
		select {
		case r = <-done:
		case <-time.After(time.Duration(p.RunMS) * time.Millisecond):
			cancel()
			r = <-done
		}
	}
	if r.NewErr != nil {
		o.Inconc("harness: cannot build run: %v", r.NewErr)
		return
	}
	o.Events = k.Started.Load() + int64(l.Len())
	if pr := k.Problems(); len(pr) > 0 {
		// ids are not judged here (C03); handle sharing is
		var hp []string
		for _, s := range pr {
			if len(s) > 6 && s[:6] == "handle" {
				hp = append(hp, s)
			}
		}
		if len(hp) > 0 {
			o.Violate("handle:"+p.Desc, "%s (%s)", joinProblems(hp), p.Desc)
			return
		}
	}
	if !p.Rendezvous && cc >= 1000 && k.Started.Load() == 0 {
		o.Inconc("the large pool started no iteration (%s)", p.Desc)
		return
	}
	if hw := k.HighWater.Load(); hw > cc {
		o.Violate("upper:"+p.Desc, "%d iteration functions were executing at once with concurrency %d (%s)", hw, cc, p.Desc)
		return
	}
	if k.Handles() > int(cc) {
		o.Violate("handles:"+p.Desc, "%d distinct handles used with concurrency %d (%s)", k.Handles(), cc, p.Desc)
		return
	}
	if p.Rendezvous {
		select {
		case <-opened:
			o.AddObs("rendezvous_opened", 1)
			o.Sig("lower:mode=%s:c=%d:tick=%s:procs=%d:verbose=%v:farlimit=%v:prelude=%s", p.Spec.Mode, cc, tickClass(p.PerTick, int(cc)), c.Procs, p.Spec.Verbose, p.Spec.MaxIterations > 0, p.Prelude)
		default:
			o.Inconc("run ended before the rendezvous opened (%s)", p.Desc)
			return
		}
	} else if k.HighWater.Load() == cc {
		o.AddObs("highwater_reached_c", 1)
		o.Sig("upper:mode=%s:c=%d:tick=%s:body=%s:procs=%d", p.Spec.Mode, cc, tickClass(p.PerTick, int(cc)), p.Body, c.Procs)
	}
	o.MaxObs("max:high_water", k.HighWater.Load())
	o.Sample = map[string]any{"case": p.Desc, "started": k.Started.Load(), "high_water": k.HighWater.Load(), "handles": k.Handles(), "ticks_offering_c": ticksOffering.Load()}
}

// c04BusyReport: c held workers, a tick leaving a backlog of 2e7 pending requests, then a tick of exactly c whose
// goroutine has to report the backlog as dropped (seconds of work). The held bodies are released as soon as that
// report has begun: the c idle workers must pick up the c new requests while the report is still going on.
func c04BusyReport(c *core.Case, o *core.Outcome) {
	var pp map[string]int
	c.Params(&pp)
	cc, backlog := pp["c"], pp["backlog"]
	gate := make(chan struct{})
	var phase atomic.Int64
	var held, arrivals, firstArrival atomic.Int64
	scenario := func(t *f1testing.T) f1testing.RunFn {
		return func(t *f1testing.T) {
			if phase.Load() == 0 {
				held.Add(1)
				<-gate
				return
			}
			firstArrival.CompareAndSwap(0, time.Now().UnixNano())
			arrivals.Add(1)
		}
	}
	env := engine.NewPoolEnv("busyreport", scenario, 0, nil)
	ctx, cancel := context.WithCancel(context.Background())
	defer cancel()
	pool := env.Manager.NewTriggerPool(cc)
	wctx := pool.Start(ctx)
	pool.Trigger(wctx, backlog+cc)
	if !waitUntil(10*time.Second, func() bool { return held.Load() == int64(cc) }) {
		close(gate)
		o.Inconc("the %d workers did not all start", cc)
		return
	}
	tdone := make(chan struct{})
	var t0, t1 time.Time
	go func() { t0 = time.Now(); pool.Trigger(wctx, cc); t1 = time.Now(); close(tdone) }()
	waitUntil(10*time.Second, func() bool { return env.Stats.Total().DroppedIterationCount > 1000 })
	phase.Store(1)
	close(gate)
	arrivedDuringReport := int64(-1)
	deadline := time.Now().Add(60 * time.Second)
	for time.Now().Before(deadline) {
		select {
		case <-tdone:
			arrivedDuringReport = arrivals.Load()
		default:
		}
		if arrivedDuringReport >= 0 || arrivals.Load() >= int64(cc) {
			break
		}
		time.Sleep(200 * time.Microsecond)
	}
	reporting := false
	select {
	case <-tdone:
	default:
		reporting = true
	}
	got := arrivals.Load()
	<-tdone
	cancel()
	select {
	case <-env.Manager.WaitForCompletion():
	case <-time.After(30 * time.Second):
	}
	desc := fmt.Sprintf("c=%d backlog=%d report took %v", cc, backlog, t1.Sub(t0))
	o.Events = int64(backlog) + got
	if t1.Sub(t0) < 1500*time.Millisecond {
		o.Inconc("reporting the backlog took only %v: too short to tell (%s)", t1.Sub(t0), desc)
		return
	}
	waitUntil(5*time.Second, func() bool { return firstArrival.Load() != 0 })
	if fa := firstArrival.Load(); fa == 0 || fa >= t1.UnixNano() {
		arrivedDuringReport = 0
		reporting = false
	} else {
		arrivedDuringReport = 1
	}
	if !reporting && arrivedDuringReport == 0 {
		o.Violate("busyreport:c="+fmt.Sprint(cc), "a tick of %d requests was published and all %d workers were idle, but none of them started an iteration during the %v the ticking goroutine spent reporting %d discarded requests: pending requests and idle workers, nothing executing (%s)", cc, cc, t1.Sub(t0), backlog, desc)
		return
	}
	if reporting && got >= int64(cc) {
		o.AddObs("rounds_all_workers_busy", 1)
		o.Sig("busyreport:c=%d", cc)
	}
	o.Sample = map[string]any{"case": desc, "arrived_while_reporting": got, "report_still_running": reporting}
}

// c04Refresh: users mode with a push gateway (iteration metrics on). One iteration starts 4.6 s into the run and
// lasts until 6.2 s, across the refresh at 5 s; meanwhile the other workers go on executing short iterations.
func c04Refresh(c *core.Case, o *core.Outcome) {
	var pp map[string]int
	c.Params(&pp)
	cc := pp["c"]
	gw := engine.NewGateway(200)
	defer gw.Close()
	l := engine.NewLog()
	k := engine.NewTracker()
	var holderTaken atomic.Bool
	var inWindow atomic.Int64
	t0 := time.Now()
	scenario := func(t *f1testing.T) f1testing.RunFn {
		return func(t *f1testing.T) {
			defer k.Enter(t)()
			el := time.Since(t0)
			if el > 4600*time.Millisecond && el < 5*time.Second && holderTaken.CompareAndSwap(false, true) {
				time.Sleep(6200*time.Millisecond - el)
				return
			}
			if el > 5300*time.Millisecond && el < 6*time.Second {
				inWindow.Add(1)
			}
			time.Sleep(time.Millisecond)
		}
	}
	spec := engine.Spec{Mode: "users", Concurrency: cc, MaxDurationMS: 6500, IgnoreDropped: true, PushGateway: gw.URL()}
	t0 = time.Now()
	r := engine.Execute(context.Background(), spec, l, scenario, nil, nil)
	if r.NewErr != nil {
		o.Inconc("harness: %v", r.NewErr)
		return
	}
	o.Events = k.Started.Load()
	desc := fmt.Sprintf("users c=%d, push gateway, one iteration executing from 4.6 s to 6.2 s", cc)
	npush, _, _ := gw.Pushes()
	if !holderTaken.Load() || npush < 2 {
		o.Inconc("the long iteration did not start in its window or no refresh reached the gateway (%d pushes) (%s)", npush, desc)
		return
	}
	if hw := k.HighWater.Load(); hw > int64(cc) {
		o.Violate("refresh-upper:"+desc, "%d iterations in flight with concurrency %d (%s)", hw, cc, desc)
		return
	}
	if inWindow.Load() == 0 {
		o.Violate("refresh-lower:"+desc, "while one iteration was executing across the 5 s metrics refresh, the other %d workers started no iteration at all between 5.3 s and 6.0 s (%d iterations in the whole run): they were not usable (%s)", cc-1, k.Started.Load(), desc)
		return
	}
	o.AddObs("rounds_all_workers_busy", 1)
	o.Sig("refresh:c=%d", cc)
	o.Sample = map[string]any{"case": desc, "iterations_started_between_5.3s_and_6s": inWindow.Load(), "pushes": npush}
}

func tickClass(t, c int) string {
	switch {
	case t < c:
		return "<c"
	case t == c:
		return "=c"
	case t <= 2*c+2:
		return "~2c"
	}
	return ">>c"
}

type c04RoundsParams struct {
	C       int  `json:"c"`
	Rounds  int  `json:"rounds"`
	Perturb bool `json:"perturb"`
	Filler  int  `json:"filler"` // low-rate ticks (1 request, instant body) between rounds
	Hot     bool `json:"hot"`    // every round is preceded, back to back, by a tick of one request
	// BigFiller: the filler ticks offer 2c, 3c+1 or 10c requests instead of one
	BigFiller bool `json:"big_filler,omitempty"`
}

// c04Rounds drives a real TriggerPool directly: each round offers exactly c requests once (no
// further tick), bodies block until all c are in flight. A worker that sleeps through the
// offer (lost wake-up) leaves the round unfilled for ever.
func c04Rounds(c *core.Case, o *core.Outcome) {
	var p c04RoundsParams
	c.Params(&p)
	k := engine.NewTracker()
	var mu sync.Mutex
	open := make(chan struct{})
	arrived := 0
	var filler, bail atomic.Bool
	var fillerDone atomic.Int64
	scenario := func(t *f1testing.T) f1testing.RunFn {
		return func(t *f1testing.T) {
			if filler.Load() {
				fillerDone.Add(1)
				return
			}
			if bail.Load() {
				return
			}
			defer k.Enter(t)()
			mu.Lock()
			arrived++
			ch := open
			if arrived == p.C {
				close(open)
			}
			mu.Unlock()
			<-ch
		}
	}
	hc := engine.NewHookCtl(c.Seed + 7)
	if p.Perturb {
		hc.Perturb("pool.worker.beforeWait", 0.3)
		hc.Perturb("pool.worker.beforeTake", 0.1)
	}
	hc.Install()
	defer hc.Uninstall()
	env := engine.NewPoolEnv("rounds", scenario, 0, nil)
	ctx, cancel := context.WithCancel(context.Background())
	pool := env.Manager.NewTriggerPool(p.C)
	wctx := pool.Start(ctx)
	r := c.Rng("rounds")
	desc := fmt.Sprintf("c=%d perturb=%v filler=%d bigFiller=%v hot=%v procs=%d", p.C, p.Perturb, p.Filler, p.BigFiller, p.Hot, c.Procs)
	for round := 1; round <= p.Rounds; round++ {
		want := k.Ended.Load() + int64(p.C)
		if p.Filler > 0 {
			filler.Store(true)
			for f := 0; f < p.Filler; f++ {
				if p.BigFiller {
					pool.Trigger(wctx, pick(r, 2*p.C, 3*p.C+1, 10*p.C))
					spin(time.Duration(r.IntN(200)) * time.Microsecond)
					continue
				}
				pool.Trigger(wctx, 1)
				spin(time.Duration(r.IntN(20)) * time.Microsecond)
			}
			pool.Trigger(wctx, 0)
			// let every filler iteration that was taken finish before the round starts
			waitUntil(2*time.Second, func() bool { n := fillerDone.Load(); time.Sleep(300 * time.Microsecond); return n == fillerDone.Load() })
			filler.Store(false)
			o.AddObs("filler_ticks", int64(p.Filler))
		}
		if p.Hot {
			pool.Trigger(wctx, 1)
			// the woken workers race for the single request; the next tick lands while the losers are still awake
			spin(time.Duration(r.IntN(12000)) * time.Nanosecond)
		}
		pool.Trigger(wctx, p.C)
		if !waitUntil(10*time.Second, func() bool { return k.Ended.Load() >= want }) {
			inflight := k.Inflight.Load()
			// release the stuck bodies so that the pool can stop; later bodies pass straight through
			bail.Store(true)
			mu.Lock()
			close(open)
			open = make(chan struct{})
			arrived = 0
			mu.Unlock()
			cancel()
			select {
			case <-env.Manager.WaitForCompletion():
			case <-time.After(10 * time.Second):
			}
			o.Violate("lost-wakeup:c="+fmt.Sprint(p.C), "round %d: %d requests were offered to %d idle workers and no further tick followed, but after 10 s only %d iterations were executing (a worker is asleep although work is pending) (%s)", round, p.C, p.C, inflight, desc)
			return
		}
		if hw := k.HighWater.Load(); hw > int64(p.C) {
			o.Violate("upper-rounds:c="+fmt.Sprint(p.C), "%d bodies in flight with %d workers (%s)", hw, p.C, desc)
			break
		}
		// end of round: discard what is left of the offers, let late takers finish, re-arm the rendezvous
		pool.Trigger(wctx, 0)
		waitUntil(5*time.Second, func() bool { return k.Inflight.Load() == 0 })
		spin(20 * time.Microsecond)
		waitUntil(5*time.Second, func() bool { return k.Inflight.Load() == 0 })
		mu.Lock()
		arrived = 0
		open = make(chan struct{})
		mu.Unlock()
		o.AddObs("rounds_all_workers_busy", 1)
		// let the workers head for their idle check, then offer again at a random point
		spin(time.Duration(r.IntN(60)) * time.Microsecond)
	}
	cancel()
	<-env.Manager.WaitForCompletion()
	o.Events = k.Started.Load()
	for site, n := range hc.ReachedCounts() {
		o.AddObs("hook:"+site, n)
	}
	o.Sig("rounds:c=%d:perturb=%v:filler=%v:big=%v:hot=%v:procs=%d", p.C, p.Perturb, p.Filler > 0, p.BigFiller, p.Hot, c.Procs)
	o.Sample = map[string]any{"case": desc, "rounds": p.Rounds, "iterations": k.Started.Load(), "hooks_reached": hc.ReachedCounts()}
}

type c04Hot struct {
	arrived       atomic.Int64
	full, release chan struct{}
}

// c04HotRounds: a tick of one request is followed within a microsecond by a tick of exactly c requests,
// round after round without letting the pool settle: the workers that lose the race for the single
// request are still awake when the second tick stores its requests. Whatever they do to the pending
// counter, the c requests must all be able to run at once (no further tick follows).
func c04HotRounds(c *core.Case, o *core.Outcome) {
	var p c04RoundsParams
	c.Params(&p)
	if c.Race {
		p.Rounds /= 4
	}
	var cur atomic.Pointer[c04Hot]
	var measuring atomic.Bool
	var inflight, high atomic.Int64
	env := engine.NewPoolEnv("hotrounds", func(t *f1testing.T) f1testing.RunFn {
		return func(t *f1testing.T) {
			n := inflight.Add(1)
			defer inflight.Add(-1)
			if n > high.Load() {
				high.Store(n)
			}
			if !measuring.Load() {
				return
			}
			rd := cur.Load()
			if rd.arrived.Add(1) == int64(p.C) {
				close(rd.full)
			}
			select {
			case <-rd.full:
			case <-rd.release:
			}
		}
	}, 0, nil)
	ctx, cancel := context.WithCancel(context.Background())
	pool := env.Manager.NewTriggerPool(p.C)
	wctx := pool.Start(ctx)
	defer func() {
		cancel()
		<-env.Manager.WaitForCompletion()
	}()
	r := c.Rng("hot")
	desc := fmt.Sprintf("c=%d procs=%d race=%v", p.C, c.Procs, c.Race)
	for round := 0; round < p.Rounds; round++ {
		rd := &c04Hot{full: make(chan struct{}), release: make(chan struct{})}
		cur.Store(rd)
		pool.Trigger(wctx, 1)
		spin(time.Duration(r.IntN(1000)) * time.Nanosecond)
		measuring.Store(true)
		pool.Trigger(wctx, p.C)
		select {
		case <-rd.full:
		case <-time.After(10 * time.Second):
			arrived := rd.arrived.Load()
			measuring.Store(false)
			close(rd.release)
			o.Violate("hot-round:c="+fmt.Sprint(p.C), "round %d: a tick of %d requests followed a tick of 1 while all %d workers were free and no further tick came, but after 10 s only %d iterations were executing at once: requests were lost or workers are asleep with work pending (%s)", round, p.C, p.C, arrived, desc)
			return
		}
		measuring.Store(false)
		close(rd.release)
		pool.Trigger(wctx, 0)
		for inflight.Load() != 0 {
			runtime.Gosched()
		}
		o.AddObs("rounds_all_workers_busy", 1)
	}
	if high.Load() > int64(p.C) {
		o.Violate("hot-upper:c="+fmt.Sprint(p.C), "%d bodies in flight with %d workers (%s)", high.Load(), p.C, desc)
		return
	}
	o.Events = int64(p.Rounds) * int64(p.C)
	o.Sig("hotrounds:c=%d:procs=%d:race=%v", p.C, c.Procs, c.Race)
	o.Sample = map[string]any{"case": desc, "rounds": p.Rounds}
}
