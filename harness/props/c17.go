package props

import (
	"context"
	"fmt"
	"sync"
	"sync/atomic"
	"time"

	"github.com/form3tech-oss/f1/v2/internal/metrics"
	"github.com/form3tech-oss/f1/v2/internal/options"
	"github.com/form3tech-oss/f1/v2/internal/progress"
	"github.com/form3tech-oss/f1/v2/internal/run"
	"github.com/form3tech-oss/f1/v2/internal/run/views"
	f1testing "github.com/form3tech-oss/f1/v2/pkg/f1/testing"
	"github.com/form3tech-oss/f1/v2/verifharness/core"
	"github.com/form3tech-oss/f1/v2/verifharness/engine"
)

// C17 — iteration durations are measured around the body and aggregated exactly.

type c17MeasureParams struct {
	N       int    `json:"n"`
	Tick    int    `json:"tick"`
	BodyUS  []int  `json:"body_us"`
	CleanUS []int  `json:"clean_us"`
	Kinds   []int  `json:"kinds"`
	Mode    string `json:"mode"`
	Conc    int    `json:"conc"`
	Desc    string `json:"desc"`
	// Interrupt: the run is interrupted (context cancelled) from inside its last iteration, before that body's work
	Interrupt bool `json:"interrupt,omitempty"`
	// Combine: the scenario is registered through f1.CombineScenarios (with a passing companion)
	Combine bool `json:"combine,omitempty"`
}

type c17AggParams struct {
	Seqs int `json:"seqs"`
}

func init() {
	core.Register(&core.Property{
		ID: "C17",
		Rule: "measure: real runs with ONE worker (so intervals on the worker are disjoint); every body measures its own elapsed time with the monotonic clock and ends by pass / Fail / FailNow / require / panic, its cleanups sleep a measured time, ticks request several iterations at once so later ones queue. Sound oracles: recorded min/max/sum per outcome >= the bodies' own figures, count*mean <= sum, and recorded sum + cleanup time <= wall time of the whole run. " +
			"aggregate: random sequences of Record(outcome, d>0) / Snapshot / Total on the real progress.Stats against an exact reference (lifetime count, integer mean, min, max; period figures since the previous snapshot; monotone counts; min<=mean<=max). non-trivial = a measured run with >= 2 outcomes and queueing, or a sequence with >= 2 snapshots incl. an empty period; distinct = distinct classes of those",
		Assumptions: []string{"aggregation is checked for sequential use, as the property states"},
		Gen: func(tier string, seed uint64) []core.Case {
			r := core.Rng(seed, "C17", tier)
			var cs []core.Case
			nm := 16
			if tier == "thorough" {
				nm = 120
			}
			for i := 0; i < nm; i++ {
				p := c17MeasureParams{N: 6 + r.IntN(10), Tick: 2 + r.IntN(4), Mode: pick(r, "custom", "users", "constant"), Conc: 1}
				if i%4 == 3 {
					// several workers: only the lower bounds apply (intervals on different workers overlap)
					p.Conc = 2 + r.IntN(3)
					p.N += 10
				}
				for k := 0; k < p.N; k++ {
					p.BodyUS = append(p.BodyUS, 500+r.IntN(12000))
					p.CleanUS = append(p.CleanUS, 15000+r.IntN(25000))
					p.Kinds = append(p.Kinds, pick(r, engine.BPass, engine.BPass, engine.BFail, engine.BFailNow, engine.BRequire, engine.BPanicString, engine.BPanicError, engine.BFatal))
				}
				p.Interrupt = i%4 == 1
				p.Combine = i%4 == 2 || i%8 == 5
				p.Desc = fmt.Sprintf("mode=%s n=%d tick=%d workers=%d interrupted=%v combined=%v", p.Mode, p.N, p.Tick, p.Conc, p.Interrupt, p.Combine)
				cse := core.MkCase("C17", "measure", i, seed, p)
				cse.Race = i%2 == 0
				cse.Procs = pick(r, 1, 2, 16)
				cse.TimeoutMS = 60000
				cs = append(cs, cse)
			}
			na := 16
			per := 3000
			if tier == "thorough" {
				na, per = 128, 8000
			}
			for i := 0; i < na; i++ {
				cs = append(cs, core.MkCase("C17", "aggregate", i, seed, c17AggParams{Seqs: per}))
			}
			// more workers than a config file's limits.concurrency (a users stage brings its own number of users): whatever
			// f1 does about it, time an iteration spends waiting is not part of its duration
			nq := 2
			if tier == "thorough" {
				nq = 8
			}
			for i := 0; i < nq; i++ {
				cse := core.MkCase("C17", "queue", i, seed, map[string]int{"users": 4 + i%3, "limit": 1 + i%2, "body_ms": 60})
				cse.Solo = true
				cse.TimeoutMS = 60000
				cs = append(cs, cse)
			}
			nl := 2
			if tier == "thorough" {
				nl = 8
			}
			for i := 0; i < nl; i++ {
				cs = append(cs, core.MkCase("C17", "largesum", i, seed, map[string]int{"hours": i % 2}))
			}
			// figures read from the result by an observer while the progress tick refreshes them
			for i := 0; i < map[string]int{"quick": 4, "thorough": 24}[tier]; i++ {
				cse := core.MkCase("C17", "observer", i, seed, map[string]int{"refreshes": 60000})
				cse.Race = i%2 == 1
				cse.Procs = 16
				cse.TimeoutMS = 60000
				cs = append(cs, cse)
			}
			// an iteration that outlasts the run's own duration and ends during the completion wait: its duration is its own
			for i := 0; i < map[string]int{"quick": 3, "thorough": 12}[tier]; i++ {
				// (every third case: the iteration even outlives the completion timeout of 150 ms; whenever it is recorded, then whole)
				cse := core.MkCase("C17", "outlast", i, seed, map[string]int{"max_ms": 150 + 100*(i%3), "body_ms": 600 + 150*(i%4), "mode": i % 3, "short_wait": map[bool]int{true: 1, false: 0}[i%3 == 1]})
				cse.Race = i%2 == 0
				cse.TimeoutMS = 60000
				cs = append(cs, cse)
			}
			return cs
		},
		Kinds:  map[string]core.RunFunc{"outlast": c17Outlast, "measure": c17Measure, "aggregate": c17Aggregate, "largesum": c17LargeSum, "queue": c17Queue, "observer": c17Observer},
		Floors: map[string]int64{"measured_iterations": 100, "sequences": 20000, "snapshots_checked": 50000, "empty_periods": 1000},
	})
}

// c17Queue: a config-file users stage with more users than limits.concurrency, sleeping bodies that time themselves. The
// recorded durations (progress statistics) add up to about what the bodies measured; the verdict is on sums over the
// whole run (more than twice the bodies' own total plus 50 ms per iteration is not scheduling noise).
func c17Queue(c *core.Case, o *core.Outcome) {
	var pp map[string]int
	c.Params(&pp)
	users, limit, bodyMS := pp["users"], pp["limit"], pp["body_ms"]
	n := users * 3
	y := fmt.Sprintf("scenario: verifScenario\nlimits:\n  max-duration: 60s\n  concurrency: %d\n  max-iterations: %d\n  ignore-dropped: true\ndefault:\n  distribution: none\n  jitter: 0\nstages:\n- duration: 50s\n  mode: users\n  concurrency: %d\n", limit, n, users)
	var sumBody atomic.Int64
	var ran atomic.Int64
	scenario := func(t *f1testing.T) f1testing.RunFn {
		return func(t *f1testing.T) {
			t0 := time.Now()
			defer func() { sumBody.Add(int64(time.Since(t0))); ran.Add(1) }()
			time.Sleep(time.Duration(bodyMS) * time.Millisecond)
		}
	}
	ctx, cancel := context.WithCancel(context.Background())
	defer cancel()
	r := engine.Execute(ctx, engine.Spec{Mode: "file", YAML: y, IgnoreDropped: true}, engine.NewLog(), scenario, nil, nil)
	if r.NewErr != nil {
		o.Inconc("harness: cannot build run: %v", r.NewErr)
		return
	}
	desc := fmt.Sprintf("config file: limits.concurrency %d, users stage with %d users, %d iterations of %d ms", limit, users, n, bodyMS)
	sn := r.Result.Snapshot()
	if int(sn.SuccessfulIterationDurations.Count) != int(ran.Load()) || ran.Load() == 0 {
		o.Inconc("recorded %d iterations, %d bodies ran (%s)", sn.SuccessfulIterationDurations.Count, ran.Load(), desc)
		return
	}
	recorded := time.Duration(sn.SuccessfulIterationDurations.Average) * time.Duration(sn.SuccessfulIterationDurations.Count)
	body := time.Duration(sumBody.Load())
	if recorded > 2*body+time.Duration(ran.Load())*50*time.Millisecond {
		o.Violate("queue-included:"+desc, "the recorded durations add up to %v (mean %v, max %v), the bodies measured %v in total by their own clocks: the recorded durations include time spent waiting (%s)", recorded, sn.SuccessfulIterationDurations.Average, sn.SuccessfulIterationDurations.Max, body, desc)
		return
	}
	o.Events = ran.Load()
	o.AddObs("measured_iterations", ran.Load())
	o.AddObs("queue_runs", 1)
	o.Sig("queue:users=%d:limit=%d", users, limit)
	o.Sample = map[string]any{"case": desc, "recorded_total": recorded.String(), "bodies_total": body.String()}
}

func c17Measure(c *core.Case, o *core.Outcome) {
	metrics.Init(true) // T.Time records through the process-wide instance
	var p c17MeasureParams
	c.Params(&p)
	l := engine.NewLog()
	ctx, cancel := context.WithCancel(context.Background())
	defer cancel()
	var mu sync.Mutex
	type rec struct {
		body, clean time.Duration
		fail, ran   bool
	}
	recs := make([]rec, p.N)
	scenario := func(t *f1testing.T) f1testing.RunFn {
		return func(t *f1testing.T) {
			id := int(engine.IDOf(t))
			if id < 1 || id > p.N {
				return
			}
			i := id - 1
			kind := p.Kinds[i]
			t0 := time.Now()
			var ct time.Duration
			t.Cleanup(func() {
				c0 := time.Now()
				time.Sleep(time.Duration(p.CleanUS[i]) * time.Microsecond)
				ct = time.Since(c0)
				mu.Lock()
				recs[i].clean = ct
				mu.Unlock()
			})
			defer func() {
				// the body's own clock stops before f1's can (deferred functions run before f1 regains control)
				b := time.Since(t0)
				mu.Lock()
				recs[i] = rec{body: b, fail: engine.Fails(kind), ran: true}
				mu.Unlock()
			}()
			if id%3 == 0 {
				// a piece of work handed to a helper goroutine guarded the way f1 guards the body (it passes and is over
				// long before the body is): the body goes on afterwards and all of it is part of the duration
				hd := make(chan struct{})
				go func() {
					defer f1testing.CheckResults(t, hd)
				}()
				<-hd
			}
			if p.Interrupt && id == p.N {
				// the run is interrupted while this iteration executes; what was recorded before stays recorded, and
				// this iteration is measured like any other
				cancel()
			}
			spin(time.Duration(p.BodyUS[i]) * time.Microsecond)
			if id%4 == 1 {
				// a stage of the body timed with the handle's own timer: part of the body like the rest
				t.Time("lookup", func() { spin(time.Millisecond) })
			}
			engine.Behave(t, kind)
		}
	}
	var spec engine.Spec
	switch p.Mode {
	case "users":
		spec = engine.Spec{Mode: "users", Concurrency: max(p.Conc, 1), MaxDurationMS: 60000}
	case "constant":
		spec = engine.Spec{Mode: "constant", Rate: fmt.Sprintf("%d/20ms", p.Tick), Distribution: "none", Concurrency: max(p.Conc, 1), MaxDurationMS: 60000}
	default:
		spec = engine.Spec{Mode: "custom", CustomIntervalUS: 20000, CustomRates: []int{p.Tick}, Concurrency: max(p.Conc, 1), MaxDurationMS: 60000}
	}
	spec.MaxIterations = uint64(p.N)
	spec.IgnoreDropped = true
	if p.Combine {
		spec.Combine = 2
	}
	var inst *metrics.Metrics
	if c.Seed%2 == 0 || p.N%2 == 0 {
		// a first run of the same scenario on the same metrics instance: the exported durations of the
		// run that is measured afterwards must still be its own
		warm := engine.Execute(ctx, spec, engine.NewLog(), func(t *f1testing.T) f1testing.RunFn { return func(t *f1testing.T) {} }, nil, nil)
		if warm.NewErr == nil {
			inst = warm.Metrics
		}
	}
	tStart := time.Now()
	r := engine.Execute(ctx, spec, l, scenario, nil, inst)
	total := time.Since(tStart)
	if r.NewErr != nil {
		o.Inconc("harness: cannot build run: %v", r.NewErr)
		return
	}
	mu.Lock()
	defer mu.Unlock()
	for i := range recs {
		if !recs[i].ran {
			o.Inconc("iteration %d of %d did not run (%s)", i+1, p.N, p.Desc)
			return
		}
	}
	var sumBody [2]time.Duration
	var minB, maxB [2]time.Duration
	var cnt [2]uint64
	var sumClean time.Duration
	for _, rc := range recs {
		k := 0
		if rc.fail {
			k = 1
		}
		sumBody[k] += rc.body
		if cnt[k] == 0 || rc.body < minB[k] {
			minB[k] = rc.body
		}
		if rc.body > maxB[k] {
			maxB[k] = rc.body
		}
		cnt[k]++
		sumClean += rc.clean
	}
	snap := r.Result.Snapshot()
	fams, err := engine.Gather(r.Registry)
	if err != nil {
		o.Violate("gather", "gather failed: %v", err)
		return
	}
	sums := map[string]float64{}
	for _, s := range fams[engine.IterationFamily] {
		if s.Labels["stage"] == "iteration" {
			sums[s.Labels["result"]] += s.Sum
		}
	}
	names := []string{"success", "fail"}
	snaps := []progress.IterationDurationsSnapshot{snap.SuccessfulIterationDurations, snap.FailedIterationDurations}
	var recordedTotal float64
	for k := 0; k < 2; k++ {
		s := snaps[k]
		if s.Count != cnt[k] {
			o.Violate("measure-count:"+p.Desc, "%s: %d recorded, %d bodies ended that way (%s)", names[k], s.Count, cnt[k], p.Desc)
			return
		}
		if cnt[k] == 0 {
			continue
		}
		if s.Min < minB[k] || s.Max < maxB[k] {
			o.Violate("measure-minmax:"+p.Desc, "%s: recorded min %v max %v, but by their own clocks the bodies took min %v max %v: a recorded duration is shorter than its body (%s)", names[k], s.Min, s.Max, minB[k], maxB[k], p.Desc)
			return
		}
		if sums[names[k]] < float64(sumBody[k]) {
			o.Violate("measure-sum:"+p.Desc, "%s: exported sample sum %v < sum of the bodies' own times %v (%s)", names[k], time.Duration(sums[names[k]]), sumBody[k], p.Desc)
			return
		}
		if float64(uint64(s.Average)*s.Count) > sums[names[k]]+1 {
			o.Violate("measure-mean:"+p.Desc, "%s: count*mean %v exceeds the exported sum %v", names[k], time.Duration(uint64(s.Average)*s.Count), time.Duration(sums[names[k]]))
			return
		}
		if s.Average < time.Duration(uint64(sumBody[k])/cnt[k]) {
			o.Violate("measure-avg:"+p.Desc, "%s: recorded mean %v below the mean of the bodies' own times %v (%s)", names[k], s.Average, time.Duration(uint64(sumBody[k])/cnt[k]), p.Desc)
			return
		}
		if !(s.Min <= s.Average && s.Average <= s.Max) {
			o.Violate("measure-order:"+p.Desc, "%s: min %v mean %v max %v not ordered", names[k], s.Min, s.Average, s.Max)
			return
		}
		recordedTotal += sums[names[k]]
	}
	// cleanups and queueing excluded: everything recorded plus all cleanup time must fit in the wall time
	if p.Conc <= 1 && time.Duration(recordedTotal)+sumClean > total {
		o.Violate("measure-excludes:"+p.Desc, "recorded durations sum to %v and cleanups took %v, together more than the %v the whole run lasted on its single worker: recorded durations include cleanup or queueing time (%s)", time.Duration(recordedTotal), sumClean, total, p.Desc)
		return
	}
	o.Events = int64(len(recs)) + int64(l.Len())
	o.AddObs("measured_iterations", int64(len(recs)))
	if cnt[0] > 0 && cnt[1] > 0 {
		o.Sig("measure:mode=%s:tick=%d:workers=%d:procs=%d", p.Mode, p.Tick, p.Conc, c.Procs)
	}
	o.Sample = map[string]any{"case": p.Desc, "bodies_own_sum": (sumBody[0] + sumBody[1]).String(), "recorded_sum": time.Duration(recordedTotal).String(), "cleanup_sum": sumClean.String(), "run_wall": total.String()}
}

type c17Ref struct {
	count    uint64
	sum      int64
	min, max int64
}

func (r *c17Ref) add(d int64) {
	if r.count == 0 || d < r.min {
		r.min = d
	}
	if d > r.max {
		r.max = d
	}
	r.count++
	r.sum += d
}

func (r *c17Ref) snap() progress.IterationDurationsSnapshot {
	if r.count == 0 {
		return progress.IterationDurationsSnapshot{}
	}
	return progress.IterationDurationsSnapshot{Average: time.Duration(r.sum / int64(r.count)), Count: r.count, Min: time.Duration(r.min), Max: time.Duration(r.max)}
}

func c17Aggregate(c *core.Case, o *core.Outcome) {
	var p c17AggParams
	c.Params(&p)
	r := c.Rng("agg")
	for si := 0; si < p.Seqs && o.Verdict != core.Violated; si++ {
		stats := &progress.Stats{}
		var life [2]c17Ref
		var period c17Ref
		var dropped uint64
		ops := 5 + r.IntN(60)
		var trace []string
		snaps, emptyPeriods := 0, 0
		var lastCounts [3]uint64
		durGen := func() int64 {
			switch r.IntN(5) {
			case 0:
				return 1
			case 1:
				return int64(1 + r.IntN(1000))
			case 2:
				return int64(time.Millisecond) * int64(1+r.IntN(500))
			case 3:
				return int64(time.Hour) * int64(1+r.IntN(100))
			}
			return int64(1 + r.IntN(1_000_000_000))
		}
		for k := 0; k < ops; k++ {
			switch x := r.IntN(10); {
			case x < 5:
				d := durGen()
				stats.Record(metrics.SuccessResult, d)
				life[0].add(d)
				period.add(d)
				trace = append(trace, fmt.Sprintf("S%d", d))
			case x < 7:
				d := durGen()
				stats.Record(metrics.FailedResult, d)
				life[1].add(d)
				trace = append(trace, fmt.Sprintf("F%d", d))
			case x < 8:
				stats.Record(metrics.DroppedResult, 0)
				dropped++
				trace = append(trace, "D")
			default:
				isTotal := x == 9 && r.IntN(2) == 0
				var s progress.Snapshot
				if isTotal {
					s = stats.Total()
					trace = append(trace, "Total")
				} else {
					s = stats.Snapshot(time.Second)
					trace = append(trace, "Snap")
				}
				snaps++
				o.AddObs("snapshots_checked", 1)
				if period.count == 0 {
					emptyPeriods++
					o.AddObs("empty_periods", 1)
				}
				key := fmt.Sprintf("aggregate:%v", trace)
				if len(key) > 400 {
					key = key[:400]
				}
				if s.SuccessfulIterationDurations != life[0].snap() {
					o.Violate(key, "after %v: lifetime successful figures %+v, exact reference %+v", trace, s.SuccessfulIterationDurations, life[0].snap())
					return
				}
				if s.FailedIterationDurations != life[1].snap() {
					o.Violate(key, "after %v: lifetime failed figures %+v, exact reference %+v", trace, s.FailedIterationDurations, life[1].snap())
					return
				}
				if s.DroppedIterationCount != dropped {
					o.Violate(key, "after %v: dropped %d, reference %d", trace, s.DroppedIterationCount, dropped)
					return
				}
				if !isTotal && s.SuccessfulIterationDurationsForPeriod != period.snap() {
					o.Violate(key, "after %v: period figures %+v, exact reference for the records since the previous snapshot %+v", trace, s.SuccessfulIterationDurationsForPeriod, period.snap())
					return
				}
				for i, sn := range []progress.IterationDurationsSnapshot{s.SuccessfulIterationDurations, s.FailedIterationDurations} {
					if sn.Count > 0 && !(sn.Min <= sn.Average && sn.Average <= sn.Max) {
						o.Violate(key, "after %v: outcome %d min %v mean %v max %v not ordered", trace, i, sn.Min, sn.Average, sn.Max)
						return
					}
				}
				cur := [3]uint64{s.SuccessfulIterationDurations.Count, s.FailedIterationDurations.Count, s.DroppedIterationCount}
				for i := range cur {
					if cur[i] < lastCounts[i] {
						o.Violate(key, "after %v: lifetime count decreased from %d to %d", trace, lastCounts[i], cur[i])
						return
					}
				}
				lastCounts = cur
				if s.Iterations() != cur[0]+cur[1]+cur[2] || s.IterationsStarted() != cur[0]+cur[1] {
					o.Violate(key, "after %v: Iterations()/IterationsStarted() inconsistent", trace)
					return
				}
				period = c17Ref{}
			}
		}
		o.Events += int64(ops)
		o.AddObs("sequences", 1)
		if snaps >= 2 {
			o.Sig("agg:snaps=%d:empty=%v:ops=%d0s", min(snaps, 6), emptyPeriods > 0, ops/10)
		}
		if si == 0 {
			o.Sample = map[string]any{"sequence": trace}
		}
	}
}

// c17LargeSum: the integer mean must stay exact when the accumulated duration is far beyond 2^53 ns
// (about 104 days of cumulative iteration time, e.g. 2000 users for 75 minutes).
func c17LargeSum(c *core.Case, o *core.Outcome) {
	r := c.Rng("large")
	stats := &progress.Stats{}
	var lp map[string]int
	c.Params(&lp)
	d := int64(1_000_000_000) + int64(1+r.IntN(999))
	if lp["hours"] == 1 {
		// hour-long iterations: the accumulated sum passes 2^62 ns and stays below 2^63
		d = int64(3_600_000_000_000) + int64(1+r.IntN(999))
	}
	n := 15_000_000 + r.IntN(1_000_000)
	every := 1_000_000 + r.IntN(1000)
	if d > int64(time.Hour) {
		// stay inside the documented capacity of the accumulator (int64 nanoseconds, about 290 years)
		n, every = 2_000_000+r.IntN(100_000), 150_000+r.IntN(1000)
	}
	var life c17Ref
	for i := 1; i <= n; i++ {
		// (durations vary by a few nanoseconds so that the exact mean is not a round number)
		di := d + int64(i%7)
		stats.Record(metrics.SuccessResult, di)
		life.add(di)
		if i%every == 0 || i == n {
			var s progress.Snapshot
			if i == n {
				s = stats.Total()
			} else {
				s = stats.Snapshot(time.Second)
			}
			o.AddObs("snapshots_checked", 1)
			got, want := s.SuccessfulIterationDurations, life.snap()
			if got != want {
				o.Violate("largesum", "after %d records of %d ns (accumulated %d ns): lifetime figures %+v, exact reference %+v", i, d, life.sum, got, want)
				return
			}
			if !(got.Min <= got.Average && got.Average <= got.Max) {
				o.Violate("largesum-order", "after %d records of %d ns: min %v mean %v max %v not ordered", i, d, got.Min, got.Average, got.Max)
				return
			}
		}
	}
	o.Events = int64(n)
	o.AddObs("sequences", 1)
	o.Sig("largesum:d=%ds", d/1_000_000_000)
	o.Sample = map[string]any{"records": n, "duration_ns": d, "accumulated_ns": life.sum}
}

// c17Observer: the statistics are used sequentially (one goroutine records one iteration per period and refreshes the
// result, durations alternating between microseconds and hours); observers read Result.Snapshot() meanwhile. Every set of
// figures an observer gets must be one the refreshing goroutine stored: the period covers exactly one iteration, so its
// min, mean and max are equal, and they lie inside the lifetime range.
func c17Observer(c *core.Case, o *core.Outcome) {
	var pp map[string]int
	c.Params(&pp)
	n := pp["refreshes"]
	if c.Race {
		n /= 8
	}
	r := c.Rng("observer")
	stats := &progress.Stats{}
	res := run.NewResult(options.RunOptions{Scenario: "s"}, views.New(), stats)
	var stop atomic.Bool
	var wg sync.WaitGroup
	var torn atomic.Value
	var reads atomic.Int64
	var distinct sync.Map
	for g := 0; g < 4; g++ {
		wg.Add(1)
		go func() {
			defer wg.Done()
			for !stop.Load() {
				s := res.Snapshot()
				reads.Add(1)
				per, life := s.SuccessfulIterationDurationsForPeriod, s.SuccessfulIterationDurations
				if life.Count == 0 {
					continue
				}
				distinct.Store(life.Count, true)
				if per.Min != per.Max || per.Average != per.Min || per.Min < life.Min || per.Max > life.Max || life.Min > life.Average || life.Average > life.Max {
					torn.CompareAndSwap(nil, fmt.Sprintf("period {%v} lifetime {%v, count %d}", per, life, life.Count))
					return
				}
			}
		}()
	}
	for i := 0; i < n && torn.Load() == nil; i++ {
		d := int64(time.Microsecond) * int64(1+r.IntN(1000))
		if i%2 == 1 {
			d = int64(time.Hour) + int64(r.IntN(1000))
		}
		stats.Record(metrics.SuccessResult, d)
		res.SnapshotProgress(time.Second)
	}
	stop.Store(true)
	wg.Wait()
	o.Events = reads.Load() + int64(n)
	nd := 0
	distinct.Range(func(_, _ any) bool { nd++; return true })
	o.AddObs("observer_reads", reads.Load())
	if t := torn.Load(); t != nil {
		o.Violate("observer-torn", "figures read from the result while it was being refreshed: %s - every period covered exactly one iteration (min = mean = max, inside the lifetime range), so these figures cover no set of recorded iterations (%d refreshes, %d reads)", t, n, reads.Load())
		return
	}
	if nd < 20 {
		o.Inconc("the observers saw only %d distinct refreshes", nd)
		return
	}
	o.AddObs("sequences", 1)
	o.Sig("observer:race=%v", c.Race)
	o.Sample = map[string]any{"refreshes": n, "reads": reads.Load(), "distinct_refreshes_seen": nd}
}

// c17Outlast: one worker, the run's max-duration (or its config-file stage) is shorter than the iteration that is executing
// when it ends; the iteration finishes during the completion wait and is recorded: not shorter than its body took.
func c17Outlast(c *core.Case, o *core.Outcome) {
	var pp map[string]int
	c.Params(&pp)
	l := engine.NewLog()
	var mu sync.Mutex
	var own []time.Duration
	scenario := func(t *f1testing.T) f1testing.RunFn {
		return func(t *f1testing.T) {
			t0 := time.Now()
			defer func() {
				mu.Lock()
				own = append(own, time.Since(t0))
				mu.Unlock()
			}()
			time.Sleep(time.Duration(pp["body_ms"]) * time.Millisecond)
		}
	}
	spec := engine.Spec{Mode: "users", Concurrency: 1, MaxDurationMS: pp["max_ms"], CompletionMS: 5000, IgnoreDropped: true}
	switch pp["mode"] {
	case 1:
		spec = engine.RateSpec("constant", 1, 50, 1)
		spec.MaxDurationMS, spec.CompletionMS = pp["max_ms"], 5000
	case 2:
		y := fmt.Sprintf("scenario: verifScenario\nlimits:\n  max-duration: 30s\n  concurrency: 1\n  max-iterations: 0\n  ignore-dropped: true\ndefault:\n  distribution: none\n  jitter: 0\nstages:\n- duration: %dms\n  mode: users\n", pp["max_ms"])
		spec = engine.Spec{Mode: "file", YAML: y, IgnoreDropped: true, CompletionMS: 5000, Concurrency: 1, MaxDurationMS: 30000}
	}
	if pp["short_wait"] == 1 {
		spec.CompletionMS = 150
	}
	r := engine.Execute(context.Background(), spec, l, scenario, nil, nil)
	if r.NewErr != nil {
		o.Inconc("harness: cannot build run: %v", r.NewErr)
		return
	}
	if pp["short_wait"] == 1 {
		// the run gave up waiting; the iteration ends on its own a little later and is (or is not) recorded then
		time.Sleep(time.Duration(pp["body_ms"]+200) * time.Millisecond)
		mu.Lock()
		defer mu.Unlock()
		desc := fmt.Sprintf("mode=%s run ends after %d ms, bodies take %d ms, completion timeout 150 ms (expired)", spec.Mode, pp["max_ms"], pp["body_ms"])
		fams, err := engine.Gather(r.Registry)
		if err != nil || len(own) == 0 {
			o.Inconc("nothing to compare (%s)", desc)
			return
		}
		var sum float64
		var cnt uint64
		for _, sr := range fams[engine.IterationFamily] {
			if sr.Labels["stage"] == "iteration" && (sr.Labels["result"] == "success" || sr.Labels["result"] == "fail") {
				sum += sr.Sum
				cnt += sr.Count
			}
		}
		var ownSum time.Duration
		for _, d := range own {
			ownSum += d
		}
		if cnt == uint64(len(own)) && sum < float64(ownSum) {
			o.Violate("outlast-timeout:"+desc, "%d iterations took %v in all by their own clocks (the last one outlived the completion timeout); the %d exported samples add up to %v: an iteration was recorded shorter than its body (%s)", len(own), ownSum, cnt, time.Duration(sum), desc)
			return
		}
		o.AddObs("measured_iterations", int64(len(own)))
		o.Sig("outlast:mode=%s:short-wait", spec.Mode)
		return
	}
	mu.Lock()
	defer mu.Unlock()
	desc := fmt.Sprintf("mode=%s run ends after %d ms, bodies take %d ms, completion timeout 5 s", spec.Mode, pp["max_ms"], pp["body_ms"])
	snap := r.Result.Snapshot().SuccessfulIterationDurations
	if len(own) == 0 || snap.Count != uint64(len(own)) {
		o.Inconc("%d bodies ended, %d recorded (%s)", len(own), snap.Count, desc)
		return
	}
	minOwn, maxOwn := own[0], own[0]
	for _, d := range own {
		minOwn, maxOwn = min(minOwn, d), max(maxOwn, d)
	}
	o.Events = int64(len(own)) + int64(l.Len())
	if snap.Min < minOwn || snap.Max < maxOwn {
		o.Violate("outlast:"+desc, "%d iterations took between %v and %v by their own clocks (the last one was executing when the run stopped triggering and ended during the completion wait); recorded min %v max %v: a recorded duration is shorter than its body (%s)", len(own), minOwn, maxOwn, snap.Min, snap.Max, desc)
		return
	}
	if fams, err := engine.Gather(r.Registry); err == nil {
		var sum float64
		for _, sr := range fams[engine.IterationFamily] {
			if sr.Labels["stage"] == "iteration" {
				sum += sr.Sum
			}
		}
		var ownSum time.Duration
		for _, d := range own {
			ownSum += d
		}
		if sum < float64(ownSum) {
			o.Violate("outlast-exported:"+desc, "exported sample sum %v < sum of the bodies' own times %v (%s)", time.Duration(sum), ownSum, desc)
			return
		}
	}
	o.AddObs("measured_iterations", int64(len(own)))
	o.Sig("outlast:mode=%s", spec.Mode)
	o.Sample = map[string]any{"case": desc, "bodies_own_max": maxOwn.String(), "recorded_max": snap.Max.String()}
}
