package props

import (
	"os"

	"context"
	"fmt"
	"github.com/form3tech-oss/f1/v2/pkg/f1"

	f1testing "github.com/form3tech-oss/f1/v2/pkg/f1/testing"
	"github.com/form3tech-oss/f1/v2/verifharness/core"
	"github.com/form3tech-oss/f1/v2/verifharness/engine"

	"github.com/anishathalye/porcupine"
	"sync"
	"sync/atomic"
	"time"
)

// C03 — max-iterations is a hard ceiling; iteration ids are unique and gapless.

type c03Params struct {
	Spec    engine.Spec `json:"spec"`
	N       uint64      `json:"n"`
	MustHit bool        `json:"must_hit"`
	Body    string      `json:"body"`
	Desc    string      `json:"desc"`
	// SetupMarks: bodies with id%5==0 mark failure on the handle captured in setup (which is nobody's iteration)
	SetupMarks bool `json:"setup_marks,omitempty"`
	// FailEvery > 0: bodies whose id is a multiple of it fail
	FailEvery int `json:"fail_every,omitempty"`
}

func c03FileYAML(n uint64, c int, limitStage int, r interface{ IntN(int) int }) string {
	// stage 1..k-1 are low-rate constant stages offering far fewer than N, the limit stage is a users stage
	y := fmt.Sprintf("scenario: verifScenario\nlimits:\n  max-duration: 60s\n  concurrency: %d\n  max-iterations: %d\n  ignore-dropped: true\ndefault:\n  distribution: none\n  jitter: 0\nstages:\n", c, n)
	for s := 0; s < limitStage; s++ {
		y += fmt.Sprintf("- duration: %dms\n  mode: constant\n  rate: 1/50ms\n", 150+r.IntN(150))
	}
	if r.IntN(2) == 0 {
		y += fmt.Sprintf("- duration: 30s\n  mode: users\n  concurrency: %d\n", 1+r.IntN(c))
	} else {
		y += fmt.Sprintf("- duration: 30s\n  mode: constant\n  rate: %d/10ms\n", int(n)/20+2)
	}
	y += "- duration: 30s\n  mode: users\n"
	return y
}

func init() {
	core.Register(&core.Property{
		ID: "C03",
		Rule: "whole runs of every trigger mode (constant, staged, ramp, gaussian, custom ticks, users, config files whose limit falls in the 1st/2nd/3rd stage) with limit N and concurrency around N, constructed so that only the limit can end them; " +
			"every body records its iteration id online. non-trivial = the limit was reached while >= 2 bodies had been in flight (workers competed for the last ids); distinct = distinct (mode, N, concurrency relation, tick size class, body pattern, GOMAXPROCS) classes; plus porcupine histories of NextIteration",
		Assumptions: []string{"the limit is only noticed when a worker asks for id N+1, so 'keeps requesting' cases always offer more than N"},
		Gen: func(tier string, seed uint64) []core.Case {
			r := core.Rng(seed, "C03", tier)
			var cs []core.Case
			n := 56
			if tier == "thorough" {
				n = 600
			}
			Ns := []uint64{1, 2, 3, 7, 17, 64, 1000, 20000}
			for i := 0; i < n; i++ {
				N := Ns[i%len(Ns)]
				if tier == "quick" && N == 20000 && i%16 != 7 {
					N = 300
				}
				cOpts := []int{1, 2, int(N) - 1, int(N), int(N) + 1, 100, 512}
				c := cOpts[r.IntN(len(cOpts))]
				if c < 1 {
					c = 1
				}
				if c > 512 {
					c = 512
				}
				mode := pick(r, "constant", "staged", "ramp", "gaussian", "custom", "users", "users", "file", "fileusers", "filespan")
				p := c03Params{N: N, MustHit: true, Body: pick(r, "instant", "instant", "spin", "sleep", "yield")}
				tickClass := ""
				switch mode {
				case "fileusers":
					// consecutive users stages with slow bodies: earlier stages end by their duration, the limit falls in the last
					c = 2 + r.IntN(7)
					N = uint64(c*2*150 + 500 + r.IntN(500))
					p.N = N
					p.Body = "sleep1ms"
					y := fmt.Sprintf("scenario: verifScenario\nlimits:\n  max-duration: 60s\n  concurrency: %d\n  max-iterations: %d\n  ignore-dropped: true\ndefault:\n  distribution: none\n  jitter: 0\nstages:\n", c, N)
					y += fmt.Sprintf("- duration: %dms\n  mode: users\n  concurrency: %d\n", 120+r.IntN(60), 1+r.IntN(c))
					if r.IntN(2) == 0 {
						y += fmt.Sprintf("- duration: %dms\n  mode: constant\n  rate: 3/20ms\n", 100+r.IntN(60))
					} else {
						y += fmt.Sprintf("- duration: %dms\n  mode: users\n", 120+r.IntN(60))
					}
					y += "- duration: 40s\n  mode: users\n"
					p.Spec = engine.Spec{Mode: "file", YAML: y}
					tickClass = "users-stages"
				case "filespan":
					// every third iteration outlives its 150 ms stage: the next stage's pool triggers while the slow iterations
					// of the one before still occupy workers; ids stay gapless and exactly N iterations are invoked
					c = pick(r, 2, 4, 8)
					N = uint64(c * (25 + r.IntN(20)))
					p.N = N
					p.Body = "span"
					p.Spec = engine.FileSpanSpec(c, N)
					tickClass = "spanning-stages"
				case "users":
					p.Spec = engine.Spec{Mode: "users", Concurrency: c, MaxDurationMS: 60000}
				case "file":
					ls := r.IntN(3)
					p.Spec = engine.Spec{Mode: "file", YAML: c03FileYAML(N, c, ls, r)}
					tickClass = fmt.Sprintf("limitstage=%d", ls)
					if N <= 17 && ls > 0 {
						// low-rate stages may already offer more than N: the limit can fall anywhere
						tickClass += ":early"
					}
				default:
					T := pick(r, 1, int(N)-1, int(N), 10*int(N))
					if T < int(N)/100+1 {
						T = int(N)/100 + 1
					}
					if T > 4000 {
						T = 4000
					}
					if T < 1 {
						T = 1
					}
					p.Spec = engine.RateSpec(mode, T, 10, c)
					tickClass = fmt.Sprintf("tick=%d", T)
				}
				if c <= 2 && p.Body == "sleep" && N > 3000 && p.Spec.Mode != "file" {
					// two sleeping workers under the race detector and perturbation do ~200 iterations/s
					N = 3000
					p.N = N
				}
				p.Spec.MaxIterations = N
				p.Spec.IgnoreDropped = true
				if p.Spec.Mode != "file" {
					// registered through CombineScenarios (alone or with passing companions) in half of the cases
					p.Spec.Combine = pick(r, 0, 0, 1, 3)
				}
				p.SetupMarks = r.IntN(4) == 0
				if !p.SetupMarks {
					p.FailEvery = pick(r, 0, 0, 1, 2, 3)
				}
				p.Desc = fmt.Sprintf("mode=%s N=%d c=%d %s body=%s combine=%d setupMarks=%v failEvery=%d", mode, N, c, tickClass, p.Body, p.Spec.Combine, p.SetupMarks, p.FailEvery)
				cse := core.MkCase("C03", "run", i, seed, p)
				cse.Race = true
				cse.Procs = pick(r, 1, 2, 4, 16)
				if tier == "quick" {
					cse.Procs = pick(r, 2, 16)
				}
				cse.TimeoutMS = 90000
				cs = append(cs, cse)
			}
			// limits near the top of the uint64 range: far away, so the run ends by its duration, not by the limit
			for i, N := range []uint64{1 << 62, 1<<63 - 1, 1 << 63, 1<<63 + 12345, ^uint64(0) - 1, ^uint64(0), 1<<32 + 5, 1 << 32, 1<<33 + 1, 1<<48 + 3} {
				mode := pick(r, "users", "constant")
				p := c03Params{N: N, MustHit: false, Body: "sleep"}
				if mode == "users" {
					p.Spec = engine.Spec{Mode: "users", Concurrency: 4}
				} else {
					p.Spec = engine.RateSpec("constant", 4, 10, 4)
				}
				p.Spec.MaxIterations, p.Spec.MaxDurationMS, p.Spec.IgnoreDropped = N, 250, true
				p.Desc = fmt.Sprintf("mode=%s N=%d (far limit) c=4 body=sleep", mode, N)
				cse := core.MkCase("C03", "run", 9000+i, seed, p)
				cse.Race = i%2 == 0
				cse.TimeoutMS = 60000
				cs = append(cs, cse)
			}
			// the limit given on the real command line (flags and config file), next to other limits with different values
			ncli := 9
			if tier == "thorough" {
				ncli = 60
			}
			for i := 0; i < ncli; i++ {
				p := c03CLIParams{Via: []string{"users", "constant", "file"}[i%3], N: uint64(pick(r, 1, 3, 7, 40)), MaxFailures: pick(r, 0, 2, 11, 1000), Conc: pick(r, 1, 3, 8)}
				cse := core.MkCase("C03", "cli", i, seed, p)
				cse.Solo = true
				cse.TimeoutMS = 60000
				cs = append(cs, cse)
			}
			np := 6
			if tier == "thorough" {
				np = 40
			}
			for i := 0; i < np; i++ {
				cse := core.MkCase("C03", "porcupine", i, seed, nil)
				cse.Race = i%2 == 0
				cs = append(cs, cse)
			}
			// one run's id counter across tens of thousands of short-lived pools (stage after stage), each stopped with work pending
			for i := 0; i < map[string]int{"quick": 3, "thorough": 16}[tier]; i++ {
				cse := core.MkCase("C03", "poolstops", i, seed, map[string]int{"pools": 20000, "w": pick(r, 4, 8, 16)})
				cse.Race = i%3 == 2
				cse.Procs = 16
				cse.TimeoutMS = 120000
				cs = append(cs, cse)
			}
			return cs
		},
		Kinds:  map[string]core.RunFunc{"run": c03Run, "porcupine": c03Porcupine, "cli": c03CLI, "poolstops": c03PoolStops},
		Floors: map[string]int64{"limit_reached_runs": 20, "competed_runs": 10, "ids_checked": 1000},
	})
}

func c03Run(c *core.Case, o *core.Outcome) {
	var p c03Params
	c.Params(&p)
	k := engine.NewTracker()
	l := engine.NewLog()
	rr := c.Rng("body")
	salt := rr.Uint64()
	var lastStart atomic.Int64
	scenario := func(setupT *f1testing.T) f1testing.RunFn {
		return func(t *f1testing.T) {
			defer k.Enter(t)()
			lastStart.Store(time.Now().UnixNano())
			if p.SetupMarks && engine.IDOf(t)%5 == 0 {
				setupT.Fail()
			}
			if p.FailEvery > 0 && engine.IDOf(t)%uint64(p.FailEvery) == 0 {
				// failed iterations count towards the limit like any other
				defer t.Fail()
			}
			if p.Body == "span" {
				engine.SpanSleep(engine.IDOf(t))
			} else if p.Body == "sleep1ms" {
				time.Sleep(time.Millisecond)
				return
			}
			bodyWork(p.Body, engine.IDOf(t)*2654435761+salt)
		}
	}
	ctx, cancel := context.WithCancel(context.Background())
	defer cancel()
	r := engine.Execute(ctx, p.Spec, l, scenario, nil, nil)
	if r.NewErr != nil {
		o.Inconc("harness: cannot build run: %v (%s)", r.NewErr, p.Desc)
		return
	}
	S := k.Started.Load()
	o.Events = S + int64(l.Len())
	o.AddObs("ids_checked", S)
	key := "ids:" + p.Desc
	if pr := k.Problems(); len(pr) > 0 {
		o.Violate(key, "%s (%s)", joinProblems(pr), p.Desc)
		return
	}
	ok, n, why := k.IDsGapless()
	if !ok {
		o.Violate(key, "iteration ids are not exactly 1..%d: %s (%s)", n, why, p.Desc)
		return
	}
	if uint64(S) > p.N {
		o.Violate("ceiling:"+p.Desc, "iteration function invoked %d times with max-iterations %d (%s)", S, p.N, p.Desc)
		return
	}
	if !p.MustHit && uint64(S) < p.N && l.Contains("Max Iterations Reached") {
		o.Violate("far-limit-reached:"+p.Desc, "the run announced that max-iterations was reached after %d iterations; the limit is %d (%s)", S, p.N, p.Desc)
		return
	}
	if !p.MustHit && S == 0 {
		o.Violate("far-limit:"+p.Desc, "max-iterations %d is far away but no iteration ran at all in a %d ms run (%s)", p.N, p.Spec.MaxDurationMS, p.Desc)
		return
	}
	if p.MustHit && uint64(S) != p.N && l.Contains("Max Duration Elapsed") && time.Now().UnixNano()-lastStart.Load() < int64(2*time.Second) {
		// iterations were still being started when the run's duration ended: too slow a machine for this N, not a lost request
		o.Inconc("the run's max duration ended before the limit: %d of %d iterations, still starting new ones at the end (%s)", S, p.N, p.Desc)
		return
	}
	if p.MustHit && uint64(S) != p.N {
		o.Violate("exact:"+p.Desc, "trigger kept requesting until the limit stopped it, but the iteration function was invoked %d times, max-iterations %d (%s)", S, p.N, p.Desc)
		return
	}
	if k.Inflight.Load() != 0 {
		o.Violate("inflight:"+p.Desc, "run returned (limit reached, no timeout) with %d bodies still executing (%s)", k.Inflight.Load(), p.Desc)
		return
	}
	su, fa, _ := resultCounts(r)
	if p.FailEvery > 0 && fa != uint64(S)/uint64(p.FailEvery) {
		o.Violate("fail-count:"+p.Desc, "bodies with id %% %d == 0 failed: %d of %d; the result reports %d failed (%s)", p.FailEvery, uint64(S)/uint64(p.FailEvery), S, fa, p.Desc)
		return
	}
	if p.SetupMarks && fa != 0 {
		o.Violate("setup-marks:"+p.Desc, "no body marked its own iteration failed (some marked the handle captured in setup), the result reports %d failed of %d (%s)", fa, S, p.Desc)
		return
	}
	if su+fa != uint64(S) {
		o.Violate("result:"+p.Desc, "result reports %d+%d started iterations, %d bodies ran (%s)", su, fa, S, p.Desc)
		return
	}
	if p.MustHit {
		o.AddObs("limit_reached_runs", 1)
	} else {
		o.Sig("farlimit:N>2^63=%v", p.N > 1<<63)
	}
	if k.HighWater.Load() >= 2 && p.MustHit {
		o.AddObs("competed_runs", 1)
		cRel := "c<N"
		if uint64(p.Spec.Concurrency) == p.N {
			cRel = "c=N"
		} else if uint64(p.Spec.Concurrency) > p.N {
			cRel = "c>N"
		}
		o.Sig("mode=%s:N=%d:%s:body=%s:procs=%d", p.Spec.Mode, p.N, cRel, p.Body, c.Procs)
	}
	o.MaxObs("max:high_water", k.HighWater.Load())
	o.Sample = map[string]any{"case": p.Desc, "started": S, "high_water": k.HighWater.Load(), "handles": k.Handles(), "wall_ms": (r.TReturn - r.TCall).Milliseconds()}
}

type c03CLIParams struct {
	Via         string `json:"via"`
	N           uint64 `json:"n"`
	MaxFailures int    `json:"max_failures"`
	Conc        int    `json:"conc"`
}

// c03CLI: the real command line with --max-iterations N (or the config file's limits.max-iterations) and a
// different --max-failures next to it; the run can only end by the limit (30 s duration), so exactly N bodies run.
func c03CLI(c *core.Case, o *core.Outcome) {
	var p c03CLIParams
	c.Params(&p)
	k := engine.NewTracker()
	scenario := func(t *f1testing.T) f1testing.RunFn {
		return func(t *f1testing.T) { defer k.Enter(t)() }
	}
	args := []string{"run"}
	switch p.Via {
	case "file":
		y := fmt.Sprintf("scenario: verifScenario\nlimits:\n  max-duration: 30s\n  concurrency: %d\n  max-iterations: %d\n  max-failures: %d\n  ignore-dropped: true\ndefault:\n  distribution: none\n  jitter: 0\nstages:\n- duration: 100ms\n  mode: constant\n  rate: 0/s\n- duration: 20s\n  mode: users\n", p.Conc, p.N, p.MaxFailures)
		path, err := engine.TempYAML(y)
		if err != nil {
			o.Inconc("cannot write yaml: %v", err)
			return
		}
		defer os.Remove(path)
		args = append(args, "file", path)
	case "constant":
		args = append(args, "constant", "-r", fmt.Sprintf("%d/10ms", p.Conc), "--distribution", "none", "-c", fmt.Sprint(p.Conc), "-d", "30s", "-i", fmt.Sprint(p.N), "--max-failures", fmt.Sprint(p.MaxFailures), "--ignore-dropped", "verifScenario")
	default:
		args = append(args, "users", "-c", fmt.Sprint(p.Conc), "-d", "30s", "-i", fmt.Sprint(p.N), "--max-failures", fmt.Sprint(p.MaxFailures), "verifScenario")
	}
	desc := fmt.Sprintf("via=%s N=%d max-failures=%d c=%d", p.Via, p.N, p.MaxFailures, p.Conc)
	var err error
	done := make(chan struct{})
	go func() {
		defer close(done)
		err = f1.New().Add("verifScenario", scenario).ExecuteWithArgs(args)
	}()
	select {
	case <-done:
	case <-time.After(25 * time.Second):
		o.Violate("cli-limit-ignored:"+desc, "the command line run did not end by its max-iterations %d within 25 s: %d bodies ran so far (args %v)", p.N, k.Started.Load(), args)
		return
	}
	S := k.Started.Load()
	o.Events += S + 1
	o.AddObs("ids_checked", S)
	o.AddObs("cli_runs", 1)
	if pr := k.Problems(); len(pr) > 0 {
		o.Violate("cli-ids:"+desc, "%s (%s)", joinProblems(pr), desc)
		return
	}
	if ok, n, why := k.IDsGapless(); !ok {
		o.Violate("cli-ids:"+desc, "iteration ids are not exactly 1..%d: %s (%s)", n, why, desc)
		return
	}
	if uint64(S) != p.N {
		o.Violate("cli-exact:"+desc, "the command line asked for max-iterations %d; the iteration function was invoked %d times (err=%v, args %v)", p.N, S, err, args)
		return
	}
	if err != nil {
		o.Violate("cli-err:"+desc, "a run of %d passing iterations returned %v (args %v)", S, err, args)
		return
	}
	o.Sig("cli:via=%s:N=%d:maxfail=%d", p.Via, p.N, p.MaxFailures)
	if o.Sample == nil {
		o.Sample = map[string]any{"args": args, "started": S}
	}
}

// c03Porcupine: concurrent NextIteration histories against a fetch-and-increment model with ceiling.
func c03Porcupine(c *core.Case, o *core.Outcome) {
	r := c.Rng("porc")
	type in struct{}
	type out struct {
		id  uint64
		err bool
	}
	histories := 400
	for h := 0; h < histories; h++ {
		limit := uint64(r.IntN(12))
		clients := 2 + r.IntN(4)
		per := 2 + r.IntN(4)
		m := engine.NewPoolManager(limit, nil)
		var ops []porcupine.Operation
		var mu sync.Mutex
		var clock atomic.Int64
		var wg sync.WaitGroup
		start := make(chan struct{})
		for cl := 0; cl < clients; cl++ {
			wg.Add(1)
			go func(cl int) {
				defer wg.Done()
				<-start
				for i := 0; i < per; i++ {
					call := clock.Add(1)
					id, err := m.NextIteration()
					ret := clock.Add(1)
					mu.Lock()
					ops = append(ops, porcupine.Operation{ClientId: cl, Input: in{}, Call: call, Output: out{id, err != nil}, Return: ret})
					mu.Unlock()
				}
			}(cl)
		}
		close(start)
		wg.Wait()
		model := porcupine.Model{
			Init: func() any { return uint64(0) },
			Step: func(st, _ any, output any) (bool, any) {
				n := st.(uint64) + 1
				ou := output.(out)
				if limit > 0 && n > limit {
					return ou.err, n
				}
				return !ou.err && ou.id == n, n
			},
		}
		res := porcupine.CheckOperationsTimeout(model, ops, 20*time.Second)
		o.Events += int64(len(ops))
		o.AddObs("porcupine_histories", 1)
		switch res {
		case porcupine.Illegal:
			o.Violate(fmt.Sprintf("porcupine-nextiteration:limit=%d", limit), "NextIteration history with %d clients x %d ops, limit %d is not linearizable as fetch-and-increment with ceiling: %v", clients, per, limit, ops)
			return
		case porcupine.Unknown:
			o.AddObs("porcupine_unknown", 1)
		}
		// after the history the ceiling predicate must agree
		if limit > 0 && uint64(clients*per) > limit && !m.MaxIterationsReached() {
			o.Violate("maxreached", "MaxIterationsReached()=false after %d requests with limit %d", clients*per, limit)
			return
		}
		o.Sig("porc:clients=%d:limit=%v", clients, limit > 0)
	}
	o.Sample = map[string]any{"histories": histories}
}

// c03PoolStops: one pool manager (one run's id counter, no limit) serves tens of thousands of trigger pools one after the
// other, as the stages of a config file do; each gets a tick of more work than it has workers and is stopped a few
// microseconds later, while its workers are drawing ids. Whatever the pools did with their requests, the ids that reached
// iteration functions are exactly 1..k, each once.
func c03PoolStops(c *core.Case, o *core.Outcome) {
	var pp map[string]int
	c.Params(&pp)
	pools, w := pp["pools"], pp["w"]
	if c.Race {
		pools /= 5
	}
	var mu sync.Mutex
	seen := map[uint64]int{}
	env := engine.NewPoolEnv("poolstops", func(*f1testing.T) f1testing.RunFn {
		return func(t *f1testing.T) {
			id := engine.IDOf(t)
			mu.Lock()
			seen[id]++
			mu.Unlock()
		}
	}, 0, nil)
	r := c.Rng("poolstops")
	for i := 0; i < pools; i++ {
		ctx, cancel := context.WithCancel(context.Background())
		pool := env.Manager.NewTriggerPool(w)
		wctx := pool.Start(ctx)
		pool.Trigger(wctx, w+r.IntN(3*w))
		spin(time.Duration(r.IntN(30)) * time.Microsecond)
		cancel()
		select {
		case <-env.Manager.WaitForCompletion():
		case <-time.After(20 * time.Second):
			o.Violate("poolstops-hang", "pool %d of %d (%d workers) did not complete within 20 s of its stop", i, pools, w)
			return
		}
	}
	mu.Lock()
	defer mu.Unlock()
	o.Events = int64(len(seen))
	var dup, missing []uint64
	maxID := uint64(0)
	for id, k := range seen {
		if k > 1 {
			dup = append(dup, id)
		}
		if id > maxID {
			maxID = id
		}
	}
	for id := uint64(1); id <= maxID && len(missing) < 5; id++ {
		if seen[id] == 0 {
			missing = append(missing, id)
		}
	}
	if len(dup) > 0 || len(missing) > 0 {
		if len(dup) > 5 {
			dup = dup[:5]
		}
		o.Violate("poolstops-ids", "%d pools of %d workers on one id counter, each stopped while its workers were taking work: %d iteration functions ran, highest id %d; ids handed out twice: %v, ids never handed out: %v", pools, w, len(seen), maxID, dup, missing)
		return
	}
	if len(seen) < pools/10 {
		o.Inconc("only %d iterations ran in %d pools", len(seen), pools)
		return
	}
	o.Sig("poolstops:w=%d:race=%v", w, c.Race)
	o.Sample = map[string]any{"pools": pools, "workers": w, "iterations": len(seen)}
}
