package props

import (
	"context"
	"fmt"
	"io"
	"log/slog"
	"os"
	"strings"
	"sync"
	"sync/atomic"
	"syscall"
	"time"

	"go.uber.org/goleak"

	"github.com/form3tech-oss/f1/v2/pkg/f1"
	f1testing "github.com/form3tech-oss/f1/v2/pkg/f1/testing"
	"github.com/form3tech-oss/f1/v2/verifharness/core"
	"github.com/form3tech-oss/f1/v2/verifharness/engine"
)

// C05 — a run always terminates, stops triggering on time, and leaves nothing running.

type c05Params struct {
	Spec     engine.Spec `json:"spec"`
	Ending   string      `json:"ending"`   // duration trigger-duration limit cancel-before cancel-setup cancel-eval cancel-body cancel-out setup-fail setup-panic
	Blocking string      `json:"blocking"` // none gated forever
	At       int         `json:"at"`       // evaluation m / body j / ms
	Script   string      `json:"script"`   // "" | late-tick | slow-output | tick-at-finish | stop-path
	// SlowMS: how long the sink of the slow-output script takes per progress report (default 600)
	SlowMS int    `json:"slow_ms,omitempty"`
	Desc   string `json:"desc"`
	// ReleaseMS > 0 (ending duration, blocking gated): the held bodies are released this long after max-duration
	ReleaseMS int `json:"release_ms,omitempty"`
	// BoundMS > 0 (ending limit): Do must return within this long after the N-th body started
	BoundMS int `json:"bound_ms,omitempty"`
	// TrigDurMS > 0: the trigger's own total duration as the case's plan gives it (config files: sum of the stages)
	TrigDurMS int `json:"trig_dur_ms,omitempty"`
	// Reps > 1: the run is repeated (the situation it aims at is a matter of a few milliseconds)
	Reps int `json:"reps,omitempty"`
	// ZoneS != 0: the process's local time zone is this many seconds east of UTC while the case runs (own child); such a
	// case must return within 20 s - nothing in it lasts longer than a second
	ZoneS int `json:"zone_s,omitempty"`
	// SlowGatewayMS > 0: the run pushes its metrics to a (loopback) gateway that takes this long to answer every push
	SlowGatewayMS int `json:"slow_gateway_ms,omitempty"`
}

func c05FileYAML(c int, maxDur string, limit uint64, stages string) string {
	return fmt.Sprintf("scenario: verifScenario\nlimits:\n  max-duration: %s\n  concurrency: %d\n  max-iterations: %d\n  ignore-dropped: true\ndefault:\n  distribution: none\n  jitter: 0\nstages:\n%s", maxDur, c, limit, stages)
}

func init() {
	core.Register(&core.Property{
		ID: "C05",
		Rule: "whole runs over trigger mode (constant, staged, ramp, gaussian, custom, users, config files with users/constant stages) x ending (max-duration, trigger's own duration, limit, cancel before start / during setup / inside rate evaluation m / inside body j / from outside, setup failure, setup panic) x blocking pattern (none, bodies gated past the stop point and released later, bodies blocked for ever), each under a separate watchdog. " +
			"Monitors: Do returns; the deadline f1 arms is read from the trigger's context; event order decides 'every started iteration finished before return', 'no iteration / no output after return'; timer lower bound decides 'waited for the completion timeout'; goleak at quiescence; scripted late progress tick at hooks raterun.beforeDispatch + result.error.enter; slow output sink. " +
			"non-trivial = the run was stopped with iterations in flight or a deadline was checked; distinct = distinct (mode, ending, blocking, script, GOMAXPROCS) classes",
		Assumptions: []string{
			"'on time' is decided through the deadline f1 arms and through event order, not by timing the run",
			"bounded progress: with bodies held by the harness, Do not returning within max(30 x completion timeout, 20 s) is a violation of 'waits at most the completion timeout'",
		},
		Gen: func(tier string, seed uint64) []core.Case {
			r := core.Rng(seed, "C05", tier)
			n := 90
			if tier == "thorough" {
				n = 900
			}
			endings := []string{"duration", "trigger-duration", "limit", "cancel-before", "cancel-setup", "cancel-eval", "cancel-body", "cancel-out", "setup-fail", "setup-panic", "duration-latecancel", "limit-latecancel"}
			modes := []string{"constant", "staged", "ramp", "gaussian", "custom", "users", "file"}
			var cs []core.Case
			for i := 0; i < n; i++ {
				p := c05Params{Ending: endings[i%len(endings)], Blocking: pick(r, "none", "none", "gated", "forever")}
				mode := modes[r.IntN(len(modes))]
				c := pick(r, 1, 2, 4, 8)
				if p.Ending == "cancel-eval" && (mode == "users" || mode == "file") {
					mode = "custom"
				}
				if p.Ending == "trigger-duration" {
					mode = pick(r, "staged", "custom", "file")
				}
				switch mode {
				case "users":
					p.Spec = engine.Spec{Mode: "users", Concurrency: c, MaxDurationMS: 60000}
				case "file":
					st := "- duration: 150ms\n  mode: users\n- duration: 150ms\n  mode: constant\n  rate: 2/10ms\n- duration: 200ms\n  mode: users\n"
					if r.IntN(2) == 0 {
						st = "- duration: 200ms\n  mode: users\n- duration: 200ms\n  mode: users\n"
					}
					p.Spec = engine.Spec{Mode: "file", YAML: c05FileYAML(c, "60s", 0, st)}
				default:
					p.Spec = engine.RateSpec(mode, c, 5, c)
				}
				p.Spec.IgnoreDropped = true
				p.Spec.Interactive, p.Spec.Verbose = r.IntN(3) == 0, r.IntN(4) == 0
				p.Spec.CompletionMS = 150 + r.IntN(150)
				if strings.HasSuffix(p.Ending, "-latecancel") {
					// triggering stops by itself, the caller cancels while the run waits for held iterations
					p.Blocking = "forever"
					p.Spec.CompletionMS = 400 + r.IntN(300)
				}
				switch p.Ending {
				case "duration-latecancel":
					d := 150 + r.IntN(100)
					p.Spec.MaxDurationMS = d
					if mode == "file" {
						p.Spec.YAML = strings.Replace(p.Spec.YAML, "max-duration: 60s", fmt.Sprintf("max-duration: %dms", d), 1)
					}
				case "limit-latecancel":
					if c < 2 {
						c = 2
						p.Spec.Concurrency = 2
					}
					N := uint64(1 + r.IntN(c-1))
					p.Spec.MaxIterations = N
					p.Spec.MaxDurationMS = 20000
					if mode == "file" {
						p.Spec.YAML = c05FileYAML(c, "20s", N, "- duration: 15s\n  mode: users\n")
					}
				case "duration":
					d := 150 + r.IntN(200)
					p.Spec.MaxDurationMS = d
					if mode == "file" {
						p.Spec.YAML = strings.Replace(p.Spec.YAML, "max-duration: 60s", fmt.Sprintf("max-duration: %dms", d), 1)
					}
				case "trigger-duration":
					switch mode {
					case "staged":
						p.Spec.Stages = fmt.Sprintf("0s:%d,100ms:%d,%dms:%d", c, c, 100+r.IntN(200), c)
						p.Spec.FreqMS = 5
					case "custom":
						p.Spec.TriggerDurMS = 150 + r.IntN(200)
					}
				case "limit":
					N := uint64(c * (3 + r.IntN(10)))
					p.Spec.MaxIterations = N
					if mode == "file" {
						p.Spec.YAML = strings.Replace(p.Spec.YAML, "max-iterations: 0", fmt.Sprintf("max-iterations: %d", N), 1)
					}
					if p.Blocking == "forever" {
						// held bodies: only the completion timeout may end the run; keep max-duration short so
						// that a run which wrongly waits for it still returns and shows it in its output
						// the limit is only noticed when a worker asks for id N+1: keep one worker free to ask
						if c < 2 {
							c = 2
							p.Spec.Concurrency = 2
						}
						N = uint64(1 + r.IntN(c-1))
						p.Spec.MaxIterations = N
						p.Spec.MaxDurationMS = 1500
						if mode == "file" {
							p.Spec.YAML = c05FileYAML(c, "1500ms", N, "- duration: 5s\n  mode: users\n")
						}
					}
				case "cancel-eval":
					p.At = 2 + r.IntN(10)
				case "cancel-body":
					p.At = 1 + r.IntN(3*c+2)
					if p.Blocking != "none" {
						p.At = 1 + r.IntN(c)
					}
				case "cancel-out":
					p.At = 50 + r.IntN(250)
				case "cancel-setup":
					p.At = i / len(endings) % 2 // odd: the setup goes on for 250 ms after the interrupt
				}
				p.Desc = fmt.Sprintf("mode=%s c=%d ending=%s at=%d blocking=%s completion=%dms", mode, c, p.Ending, p.At, p.Blocking, p.Spec.CompletionMS)
				cse := core.MkCase("C05", "run", i, seed, p)
				cse.Race = true
				cse.Procs = pick(r, 1, 2, 16)
				cse.TimeoutMS = 90000
				cs = append(cs, cse)
			}
			// the limit stops triggering while iterations never finish: only the completion timeout may end the run
			nlf := 6
			if tier == "thorough" {
				nlf = 36
			}
			for i := 0; i < nlf; i++ {
				mode := []string{"users", "constant", "staged", "file", "custom", "gaussian"}[i%6]
				c := pick(r, 2, 4, 8)
				N := uint64(1 + r.IntN(c-1))
				p := c05Params{Ending: "limit", Blocking: "forever"}
				switch mode {
				case "users":
					p.Spec = engine.Spec{Mode: "users", Concurrency: c}
				case "file":
					p.Spec = engine.Spec{Mode: "file", YAML: c05FileYAML(c, "1500ms", N, "- duration: 5s\n  mode: users\n")}
				default:
					p.Spec = engine.RateSpec(mode, c, 5, c)
				}
				p.Spec.MaxIterations, p.Spec.MaxDurationMS, p.Spec.IgnoreDropped, p.Spec.CompletionMS = N, 1500, true, 150+r.IntN(150)
				p.Desc = fmt.Sprintf("mode=%s c=%d ending=limit(N=%d) blocking=forever completion=%dms", mode, c, N, p.Spec.CompletionMS)
				cse := core.MkCase("C05", "run", 5000+i, seed, p)
				cse.Race = true
				cse.Procs = pick(r, 2, 16)
				cse.TimeoutMS = 90000
				cs = append(cs, cse)
			}
			// runs that last longer than their completion timeout and end with iterations that finish shortly after:
			// the wait starts when triggering stops, not when the run started
			nlw := 4
			if tier == "thorough" {
				nlw = 24
			}
			for i := 0; i < nlw; i++ {
				mode := []string{"users", "constant", "custom", "file"}[i%4]
				c := pick(r, 1, 2, 4)
				p := c05Params{Ending: "duration", Blocking: "gated", ReleaseMS: 100 + r.IntN(100)}
				switch mode {
				case "users":
					p.Spec = engine.Spec{Mode: "users", Concurrency: c}
				case "file":
					p.Spec = engine.Spec{Mode: "file", YAML: c05FileYAML(c, "1700ms", 0, "- duration: 1s\n  mode: constant\n  rate: 1/20ms\n- duration: 5s\n  mode: users\n")}
				default:
					p.Spec = engine.RateSpec(mode, c, 5, c)
				}
				p.Spec.MaxDurationMS, p.Spec.IgnoreDropped, p.Spec.CompletionMS = 1700, true, 1400
				p.Desc = fmt.Sprintf("mode=%s c=%d ending=duration(1700ms) blocking=gated(released %dms after the end) completion=1400ms", mode, c, p.ReleaseMS)
				cse := core.MkCase("C05", "run", 7000+i, seed, p)
				cse.Race = i%2 == 0
				cse.Procs = pick(r, 2, 16)
				cse.TimeoutMS = 90000
				cs = append(cs, cse)
			}
			// max-duration at or below the 10 ms guard: triggering is over before it begins, nothing is requested
			for i, d := range []int{1, 6, 10} {
				mode := []string{"constant", "custom", "staged"}[i%3]
				p := c05Params{Ending: "duration", Blocking: "none"}
				p.Spec = engine.RateSpec(mode, 2, 3, 4)
				p.Spec.MaxDurationMS, p.Spec.IgnoreDropped, p.Spec.CompletionMS = d, true, 300
				p.Desc = fmt.Sprintf("mode=%s c=4 ending=duration(%dms, inside the 10ms guard) blocking=none completion=300ms", mode, d)
				cse := core.MkCase("C05", "run", 7100+i, seed, p)
				cse.Race = i%2 == 0
				cse.TimeoutMS = 90000
				cs = append(cs, cse)
			}
			// config files with several rate stages whose limit is reached in the first: the run ends then,
			// not when the remaining stages have elapsed
			nfs := 3
			if tier == "thorough" {
				nfs = 12
			}
			for i := 0; i < nfs; i++ {
				c := pick(r, 1, 2, 4)
				N := uint64(c * (2 + r.IntN(4)))
				p := c05Params{Ending: "limit", Blocking: "none", BoundMS: 2500}
				st := fmt.Sprintf("- duration: 4s\n  mode: constant\n  rate: %d/20ms\n- duration: 4s\n  mode: constant\n  rate: %d/20ms\n- duration: 4s\n  mode: staged\n  stages: 0s:%d,4s:%d\n  iteration-frequency: 20ms\n", c, c, c, c)
				p.Spec = engine.Spec{Mode: "file", YAML: c05FileYAML(c, "30s", N, st)}
				p.Spec.MaxIterations, p.Spec.MaxDurationMS, p.Spec.IgnoreDropped, p.Spec.CompletionMS = N, 30000, true, 300
				p.Desc = fmt.Sprintf("mode=file(3 rate stages of 4s) c=%d ending=limit(N=%d, reached in stage 1) blocking=none completion=300ms", c, N)
				cse := core.MkCase("C05", "run", 7200+i, seed, p)
				cse.Race = i%2 == 0
				cse.Procs = pick(r, 2, 16)
				cse.TimeoutMS = 90000
				cs = append(cs, cse)
			}
			// a limit reached while thousands of idle workers are being woken tick after tick: every one of them notices the stop
			nth := 1
			if tier == "thorough" {
				nth = 4
			}
			for i := 0; i < nth; i++ {
				p := c05Params{Ending: "limit", Blocking: "none", BoundMS: 4000, Reps: 10}
				p.Spec = engine.RateSpec("constant", 1, 1, 4000)
				p.Spec.MaxIterations, p.Spec.MaxDurationMS, p.Spec.IgnoreDropped = 30, 30000, true
				p.Desc = "mode=constant(1/1ms) c=4000 ending=limit(N=30) blocking=none x10 (stop during a thundering herd)"
				cse := core.MkCase("C05", "run", 7300+i, seed, p)
				cse.Solo = true
				cse.Procs = 16
				cse.TimeoutMS = 180000
				cs = append(cs, cse)
			}
			// config files whose stages end long before max-duration: triggering stops at the stages' total, and the
			// wait for iterations that never finish is the completion timeout
			for i, blocking := range []string{"none", "forever", "none"} {
				if tier == "quick" && i == 2 {
					continue
				}
				c := pick(r, 1, 2, 4)
				st := "- duration: 200ms\n  mode: constant\n  rate: 1/20ms\n- duration: 200ms\n  mode: constant\n  rate: 1/20ms\n"
				if i == 2 {
					st = "- duration: 200ms\n  mode: users\n- duration: 200ms\n  mode: constant\n  rate: 1/20ms\n"
				}
				p := c05Params{Ending: "trigger-duration", Blocking: blocking, TrigDurMS: 400}
				p.Spec = engine.Spec{Mode: "file", YAML: c05FileYAML(c, "20s", 0, st)}
				p.Spec.MaxDurationMS, p.Spec.IgnoreDropped, p.Spec.CompletionMS = 20000, true, 400
				p.Desc = fmt.Sprintf("mode=file(2 stages of 200ms, max-duration 20s) c=%d ending=trigger-duration blocking=%s completion=400ms", c, blocking)
				cse := core.MkCase("C05", "run", 7300+i, seed, p)
				cse.Race = i%2 == 0
				cse.TimeoutMS = 40000
				cs = append(cs, cse)
			}
			// a config file restarted in the middle of its plan (stage-start in the past): the skipped stage still counts
			// in the trigger's total, so triggering ends by itself before that deadline; with an iteration that never
			// finishes the run still returns after the completion timeout
			for i := 0; i < map[string]int{"quick": 1, "thorough": 2}[tier]; i++ { // (20 s each)
				c := pick(r, 1, 2)
				st := "- duration: 2s\n  mode: constant\n  rate: 1/20ms\n- duration: 400ms\n  mode: constant\n  rate: 1/20ms\n"
				y := c05FileYAML(c, "20s", 0, st) + fmt.Sprintf("schedule:\n  stage-start: %s\n", time.Now().Add(-2500*time.Millisecond).UTC().Format(time.RFC3339Nano))
				if i == 1 {
					// (the YAML is fixed when the case is generated: give the first stage an hour so that it is over for sure)
					st = "- duration: 1h\n  mode: constant\n  rate: 1/20ms\n- duration: 400ms\n  mode: constant\n  rate: 1/20ms\n"
				}
				_ = y
				p := c05Params{Ending: "trigger-duration", Blocking: "forever", Desc: fmt.Sprintf("mode=file(restarted: stage 1 of 1h over, stage 2 of 400ms left, max-duration 20s) c=%d ending=trigger-returns-early blocking=forever completion=400ms", c)}
				p.Spec = engine.Spec{Mode: "file", YAML: "RESTARTED:" + st}
				p.Spec.MaxDurationMS, p.Spec.IgnoreDropped, p.Spec.CompletionMS, p.Spec.Concurrency = 20000, true, 400, c
				cse := core.MkCase("C05", "run", 7350+i, seed, p)
				cse.Race = i%2 == 0
				cse.TimeoutMS = 40000
				cs = append(cs, cse)
			}
			// a setup that fails and a scenario-level cleanup that fails too: the run reports and returns
			for i, kind := range []string{"setup-fail", "setup-panic"} {
				p := c05Params{Ending: kind, Blocking: "none", Desc: "mode=constant c=2 ending=" + kind + "+teardown-fails blocking=none completion=300ms"}
				p.Spec = engine.RateSpec("constant", 2, 5, 2)
				p.Spec.IgnoreDropped, p.Spec.CompletionMS, p.Spec.MaxDurationMS = true, 300, 1000
				cse := core.MkCase("C05", "run", 7360+i, seed, p)
				cse.Race = i%2 == 0
				cse.TimeoutMS = 30000
				cs = append(cs, cse)
			}
			// a config-file plan whose first iteration is still executing when the last stage has ended and its workers are idle
			for i := 0; i < map[string]int{"quick": 3, "thorough": 12}[tier]; i++ {
				c := pick(r, 2, 4)
				st := []string{
					"- duration: 150ms\n  mode: constant\n  rate: 1/10ms\n- duration: 150ms\n  mode: constant\n  rate: 1/10ms\n",
					"- duration: 150ms\n  mode: users\n- duration: 150ms\n  mode: constant\n  rate: 2/10ms\n- duration: 100ms\n  mode: constant\n  rate: 1/10ms\n",
					"- duration: 120ms\n  mode: constant\n  rate: 1/10ms\n- duration: 200ms\n  mode: staged\n  stages: \"0s:1,200ms:3\"\n  iteration-frequency: 10ms\n",
				}[i%3]
				total := []int{300, 400, 320}[i%3]
				p := c05Params{Ending: "trigger-duration", Blocking: "first-slow", TrigDurMS: total}
				p.Spec = engine.Spec{Mode: "file", YAML: c05FileYAML(c, "20s", 0, st)}
				p.Spec.MaxDurationMS, p.Spec.IgnoreDropped, p.Spec.CompletionMS, p.Spec.Concurrency = 20000, true, 5000, c
				p.Desc = fmt.Sprintf("mode=file(%d stages, %d ms in all, max-duration 20s) c=%d ending=trigger-duration blocking=first-slow(900ms) completion=5s", strings.Count(st, "duration:"), total, c)
				cse := core.MkCase("C05", "run", 7380+i, seed, p)
				cse.Race = i%2 == 0
				cse.TimeoutMS = 60000
				cs = append(cs, cse)
			}
			// max-duration ends in the pause between two config-file stages, a users stage comes next
			nps := 2
			if tier == "thorough" {
				nps = 10
			}
			for i := 0; i < nps; i++ {
				c := pick(r, 20, 50)
				p := c05Params{Ending: "duration", Blocking: "none", Reps: 10}
				// (a stage triggers for its duration less 20 ms and then pauses for 20 ms: 180-200 ms here; the
				// deadline that stops triggering is max-duration less 10 ms)
				st := "- duration: 200ms\n  mode: constant\n  rate: 1/20ms\n  parameters:\n    VERIF_C05_STAGE: first\n- duration: 4s\n  mode: users\n  parameters:\n    VERIF_C05_STAGE: second\n"
				d := 198 + r.IntN(5)
				p.Spec = engine.Spec{Mode: "file", YAML: c05FileYAML(c, fmt.Sprintf("%dms", d), 0, st)}
				p.Spec.MaxDurationMS, p.Spec.IgnoreDropped, p.Spec.CompletionMS = d, true, 300
				p.Desc = fmt.Sprintf("mode=file(constant 200ms, users 4s) c=%d ending=duration(%dms: in the pause between the stages) blocking=none completion=300ms", c, d)
				cse := core.MkCase("C05", "run", 7400+i, seed, p)
				cse.Race = i%2 == 0
				cse.Procs = pick(r, 2, 16)
				cse.TimeoutMS = 90000
				cs = append(cs, cse)
			}
			// cancellation lands while the users are being started
			ncs := 6
			if tier == "thorough" {
				ncs = 40
			}
			for i := 0; i < ncs; i++ {
				c := pick(r, 500, 2000, 4000)
				p := c05Params{Ending: "cancel-trigger-start", Blocking: "none", At: r.IntN(2500)}
				if i%3 == 2 {
					p.Spec = engine.Spec{Mode: "file", YAML: c05FileYAML(c, "60s", 0, "- duration: 20s\n  mode: users\n")}
				} else {
					p.Spec = engine.Spec{Mode: "users", Concurrency: c, MaxDurationMS: 60000}
				}
				p.Spec.IgnoreDropped, p.Spec.CompletionMS = true, 3000
				p.Desc = fmt.Sprintf("mode=%s users=%d ending=cancel %dus after triggering starts completion=3000ms", p.Spec.Mode, c, p.At)
				cse := core.MkCase("C05", "run", 6000+i, seed, p)
				cse.Race = i%2 == 0
				cse.Procs = pick(r, 2, 4, 16)
				cse.TimeoutMS = 90000
				cs = append(cs, cse)
			}
			ns := 2
			if tier == "thorough" {
				ns = 10
			}
			for i := 0; i < ns; i++ {
				for j, s := range []string{"late-tick", "slow-output", "tick-at-finish", "stop-path", "zero-duration"} {
					mode := pick(r, "users", "constant", "custom")
					if s == "stop-path" && mode == "users" {
						mode = "constant"
					}
					p := c05Params{Script: s, Ending: "cancel-out", Blocking: "none"}
					if mode == "users" {
						p.Spec = engine.Spec{Mode: "users", Concurrency: 2, MaxDurationMS: 60000}
					} else {
						p.Spec = engine.RateSpec(mode, 2, 10, 2)
					}
					p.Spec.IgnoreDropped = true
					p.Spec.Interactive = s == "slow-output" && i%2 == 0
					if s == "slow-output" && i%2 == 1 {
						// a sink that stalls for longer than any grace period one might think of
						p.SlowMS = 1600
					}
					p.Desc = fmt.Sprintf("script=%s mode=%s interactive=%v slow=%dms", s, mode, p.Spec.Interactive, p.SlowMS)
					cse := core.MkCase("C05", "script", i*5+j, seed, p)
					cse.Race = i%2 == 0
					cse.Solo = true
					cse.TimeoutMS = 45000
					cs = append(cs, cse)
				}
			}
			// gaussian triggers with weights in a process whose local zone is not UTC (and no multiple of the repeat window)
			for i, zone := range []int{19800, -12600} {
				if tier == "quick" && i == 1 {
					break
				}
				p := c05Params{Ending: "duration", Blocking: "none", ZoneS: zone, Desc: fmt.Sprintf("mode=gaussian(weights 1,2; repeat 7m) c=2 ending=duration blocking=none completion=300ms local zone UTC%+ds", zone)}
				p.Spec = engine.RateSpec("gaussian", 2, 20, 2)
				p.Spec.RepeatMS, p.Spec.PeakMS, p.Spec.StddevMS, p.Spec.Weights = 420000, 200000, 400000, "1,2"
				p.Spec.Volume = 2 * 420000 / 20
				p.Spec.IgnoreDropped, p.Spec.CompletionMS, p.Spec.MaxDurationMS = true, 300, 300
				cse := core.MkCase("C05", "run", 7395+i, seed, p)
				cse.Solo = true
				cse.TimeoutMS = 90000
				cs = append(cs, cse)
			}
			// a push gateway that takes 2.4 s to answer: the run is slower for it, and still leaves nothing behind
			{
				p := c05Params{Ending: "duration", Blocking: "none", SlowGatewayMS: 2400, Desc: "mode=constant c=2 ending=duration blocking=none completion=300ms push gateway answering after 2.4 s"}
				p.Spec = engine.RateSpec("constant", 2, 20, 2)
				p.Spec.IgnoreDropped, p.Spec.CompletionMS, p.Spec.MaxDurationMS = true, 300, 300
				cse := core.MkCase("C05", "run", 7390, seed, p)
				cse.Solo = true
				cse.TimeoutMS = 90000
				cs = append(cs, cse)
			}
			// one f1 instance executed twice; the second execution is interrupted by a real SIGINT
			{
				cse := core.MkCase("C05", "cli", 50, seed, map[string]int{"twice": 1})
				cse.Solo = true
				cse.TimeoutMS = 60000
				cs = append(cs, cse)
			}
			// the real command line in file mode: limits.max-duration caps a plan whose stages add up to far more
			for i := 0; i < map[string]int{"quick": 2, "thorough": 6}[tier]; i++ {
				cse := core.MkCase("C05", "cli", i, seed, map[string]int{"max_ms": 300 + 150*i, "stage_s": 8, "users": i % 2})
				cse.Solo = true
				cse.TimeoutMS = 60000
				cs = append(cs, cse)
			}
			return cs
		},
		Kinds:  map[string]core.RunFunc{"run": c05Run, "script": c05Script, "cli": c05CLI},
		Floors: map[string]int64{"runs_returned": 60, "deadlines_checked": 30, "stopped_with_inflight": 10, "completion_timeouts_observed": 5, "goleak_checks": 60, "scripts_formed": 3},
		HangViolation: func(c *core.Case, dump string) (bool, string, string) {
			if strings.Contains(dump, "run.(*Run).Do") {
				if strings.Contains(dump, "sync.(*RWMutex).RLock") && strings.Contains(dump, "run.(*Result)") {
					return true, "deadlock-result-mutex", "Do is parked in a nested RLock of the result mutex while a writer is pending: a cycle of parked goroutines cannot resolve itself"
				}
				var p c05Params
				c.Params(&p)
				return true, "do-never-returns:" + p.Desc, "Do had not returned when the watchdog fired, far beyond the completion timeout (" + p.Desc + ")"
			}
			return false, "", ""
		},
	})
}

type c05Env struct {
	l         *engine.Log
	ctx       context.Context
	cancel    context.CancelFunc
	inflight  atomic.Int64
	started   atomic.Int64
	gate      chan struct{}
	gateOnce  sync.Once
	stopPoint atomic.Bool
	evalSum   atomic.Int64
}

func (e *c05Env) open() { e.gateOnce.Do(func() { close(e.gate) }) }

func c05Run(c *core.Case, o *core.Outcome) {
	var p c05Params
	c.Params(&p)
	for rep := 0; rep < max(p.Reps, 1) && o.Verdict == core.Held; rep++ {
		c05RunOnce(c, o, p)
	}
}

func c05RunOnce(c *core.Case, o *core.Outcome, p c05Params) {
	if strings.HasPrefix(p.Spec.YAML, "RESTARTED:") {
		// stage-start one hour and 100 ms ago: the first stage (1h) is over, the second is current
		st := strings.TrimPrefix(p.Spec.YAML, "RESTARTED:")
		st = strings.Replace(st, "duration: 2s", "duration: 1h", 1)
		p.Spec.YAML = c05FileYAML(p.Spec.Concurrency, "20s", 0, st) + fmt.Sprintf("schedule:\n  stage-start: %s\n", time.Now().Add(-time.Hour-100*time.Millisecond).UTC().Format(time.RFC3339Nano))
	}
	if p.ZoneS != 0 {
		old := time.Local
		time.Local = time.FixedZone("verif", p.ZoneS)
		defer func() { time.Local = old }()
	}
	if p.SlowGatewayMS > 0 {
		gw := engine.NewGateway(200)
		gw.SlowAll = time.Duration(p.SlowGatewayMS) * time.Millisecond
		defer gw.Close()
		p.Spec.PushGateway = gw.URL()
	}
	opt := goleak.IgnoreCurrent()
	e := &c05Env{l: engine.NewLog(), gate: make(chan struct{})}
	e.ctx, e.cancel = context.WithCancel(context.Background())
	defer e.cancel()
	defer e.open()
	setupEntered := make(chan struct{})
	var cancelCall atomic.Int64 // log time (ns) of the cancel call / stop point
	var nthStart atomic.Int64   // log time (ns) at which the N-th (last allowed) body started
	markStop := func() {
		if e.stopPoint.CompareAndSwap(false, true) {
			cancelCall.Store(int64(e.l.Now()))
		}
	}
	scenario := func(t *f1testing.T) f1testing.RunFn {
		close(setupEntered)
		if strings.Contains(p.Desc, "+teardown-fails") {
			t.Cleanup(func() { t.FailNow() })
		}
		switch p.Ending {
		case "cancel-setup":
			markStop()
			e.cancel()
			if p.At%2 == 1 {
				// the setup has more to do after the interrupt arrived: it is part of the run until it returns
				time.Sleep(250 * time.Millisecond)
			}
			e.l.Add("setup.end", "", "", 0, "")
		case "setup-fail":
			t.FailNow()
		case "setup-panic":
			panic("setup panics")
		}
		return func(t *f1testing.T) {
			e.inflight.Add(1)
			n := e.started.Add(1)
			if p.BoundMS > 0 && uint64(n) == p.Spec.MaxIterations {
				nthStart.Store(int64(e.l.Now()))
			}
			seq := e.l.Add("body.start", "", t.Iteration, 0, os.Getenv("VERIF_C05_STAGE"))
			defer func() {
				e.inflight.Add(-1)
				e.l.Add("body.end", "", t.Iteration, seq, "")
			}()
			if p.Ending == "cancel-body" && int(n) == p.At {
				markStop()
				e.cancel()
			}
			if p.Blocking == "first-slow" {
				// the first iteration of the run outlives its stage and the run's triggering; the others are instant
				if n == 1 {
					time.Sleep(900 * time.Millisecond)
				}
			} else if p.Blocking != "none" {
				<-e.gate
			}
		}
	}
	var deadlineRem, deadlineAt time.Duration
	var deadlineOK, triggerEntered bool
	var triggerReturnedBeforeCtxDone atomic.Bool
	var trigRet atomic.Int64 // log time at which the trigger returned: the completion wait starts after it
	var trigCtx context.Context
	hooks := &engine.Hooks{
		OnTrigger: func(ctx context.Context) {
			triggerEntered = true
			trigCtx = ctx
			if p.Ending == "cancel-trigger-start" {
				go func() {
					spin(time.Duration(p.At) * time.Microsecond)
					markStop()
					e.cancel()
				}()
			}
			if dl, ok := ctx.Deadline(); ok {
				deadlineOK = true
				deadlineRem = time.Until(dl)
				deadlineAt = e.l.Now() + deadlineRem
			}
		},
		OnTriggerReturn: func() {
			trigRet.Store(int64(e.l.Now()))
			if trigCtx != nil && trigCtx.Err() == nil {
				triggerReturnedBeforeCtxDone.Store(true)
			}
			if strings.HasSuffix(p.Ending, "-latecancel") {
				markStop()
				go func() { time.Sleep(60 * time.Millisecond); e.cancel() }()
			}
		},
		OnRate: func(k int, _ time.Time, v int) int {
			if p.Ending == "cancel-eval" && k == p.At {
				markStop()
				e.cancel()
			}
			if !e.stopPoint.Load() {
				e.evalSum.Add(int64(v))
			}
			return v
		},
	}
	if p.Ending == "cancel-before" {
		markStop()
		e.cancel()
	}
	done := make(chan *engine.Run, 1)
	stopWatch := hiccupsUntil(e.l.Now)
	defer stopWatch(0)
	go func() { done <- engine.Execute(e.ctx, p.Spec, e.l, scenario, hooks, nil) }()
	if p.Ending == "cancel-out" {
		go func() {
			time.Sleep(time.Duration(p.At) * time.Millisecond)
			markStop()
			e.cancel()
		}()
	}
	completion := time.Duration(p.Spec.CompletionMS) * time.Millisecond
	// gated: release the bodies 60 ms after the stop point so that Do has to wait for them
	if p.Blocking == "gated" && p.ReleaseMS > 0 {
		go func() {
			time.Sleep(time.Duration(p.Spec.MaxDurationMS+p.ReleaseMS) * time.Millisecond)
			e.open()
		}()
	} else if p.Blocking == "gated" {
		go func() {
			for !e.stopPoint.Load() && e.ctx.Err() == nil {
				select {
				case <-time.After(2 * time.Millisecond):
				}
				if p.Ending == "duration" || p.Ending == "trigger-duration" || p.Ending == "limit" {
					// no explicit stop call: release after the run had time to reach its end
					time.Sleep(time.Duration(p.Spec.MaxDurationMS%1000+350) * time.Millisecond)
					break
				}
			}
			time.Sleep(60 * time.Millisecond)
			e.open()
		}()
	}
	bound := 30 * completion
	if bound < 20*time.Second {
		bound = 20 * time.Second
	}
	viol := func(key, format string, a ...any) { o.Violate(key+":"+p.Desc, format+" ("+p.Desc+")", a...) }
	var r *engine.Run
	idle := time.Duration(1 << 62)
	if p.ZoneS != 0 {
		idle = 20 * time.Second
	}
	select {
	case r = <-done:
	case <-time.After(idle):
		// no iteration is held by the harness, the run's max-duration is 300 ms, its completion timeout 300 ms
		if worst := stopWatch(e.l.Now()); worst > time.Second {
			o.Inconc("the machine stalled for %v (%s)", worst, p.Desc)
			return
		}
		viol("do-never-returns-idle", "20 s after it was started the run has not returned: %d iterations started, %d executing; its max-duration is %d ms and nothing holds its iterations - the run does not terminate", e.started.Load(), e.inflight.Load(), p.Spec.MaxDurationMS)
		return
	case <-time.After(bound + 60*time.Second):
		// leave it to the watchdog (dump classification)
		select {}
	}
	inflightAtReturn := e.inflight.Load()
	tRet := r.TReturn
	if r.NewErr != nil {
		o.Inconc("harness: cannot build run: %v (%s)", r.NewErr, p.Desc)
		return
	}
	o.AddObs("runs_returned", 1)
	setupFailed := p.Ending == "setup-fail" || p.Ending == "setup-panic"
	timeoutExpired := false
	for _, ev := range e.l.Events() {
		if (ev.Kind == "out.log" || ev.Kind == "out.eprint" || ev.Kind == "out.print") && strings.Contains(ev.S, "Active tests not completed") {
			timeoutExpired = true
		}
	}
	if setupFailed {
		if e.started.Load() != 0 || triggerEntered {
			viol("setup-failed-but-ran", "setup failed but triggering started (%d iterations)", e.started.Load())
			return
		}
	} else if p.Ending != "cancel-before" && p.Ending != "cancel-setup" || triggerEntered {
		// deadline actually armed
		if !triggerEntered {
			viol("trigger-not-called", "triggering never started")
			return
		}
		want := r.Options.MaxDuration
		if r.Trigger.Duration > 0 && r.Trigger.Duration < want {
			want = r.Trigger.Duration
		}
		if td := time.Duration(p.TrigDurMS) * time.Millisecond; td > 0 && td < want {
			// the plan's own arithmetic, not what the trigger reports about itself
			want = td
		}
		want -= 10 * time.Millisecond
		if !deadlineOK {
			viol("no-deadline", "the trigger's context carries no deadline: nothing stops triggering at max-duration")
			return
		}
		if deadlineRem > want {
			viol("deadline-late", "the trigger's context expires %v after triggering started, later than min(max-duration, trigger duration) - 10ms = %v", deadlineRem, want)
			return
		}
		if deadlineRem < want-2*time.Second {
			o.Inconc("deadline %v far below the expected %v (stalled?)", deadlineRem, want)
			return
		}
		o.AddObs("deadlines_checked", 1)
	}
	if p.Ending == "limit" && p.Blocking == "forever" && uint64(e.started.Load()) == p.Spec.MaxIterations {
		for _, ev := range e.l.Events() {
			if strings.HasPrefix(ev.Kind, "out.") && strings.Contains(ev.S, "Max Duration Elapsed") {
				o.Violate("limit-reached-waits-for-max-duration", "max-iterations %d was reached (all %d iterations started) with iterations that never finish; instead of waiting for at most the completion timeout (%v) the run waited until max-duration elapsed (%v after it started) (%s)", p.Spec.MaxIterations, e.started.Load(), completion, tRet-r.TCall, p.Desc)
				return
			}
		}
	}
	// Did the run wait for the whole completion timeout? Decided by a timer lower bound, not by the wording of
	// a message: the wait starts after the trigger returned, so a full wait ends no earlier than that + timeout.
	waitedFull := trigRet.Load() > 0 && tRet-time.Duration(trigRet.Load()) >= completion
	lateEnd := ""
	for _, ev := range e.l.Events() {
		if ev.Kind == "body.end" && ev.Seq > r.DoReturnSeq {
			lateEnd = ev.ID
			break
		}
	}
	if (inflightAtReturn != 0 || lateEnd != "") && !setupFailed {
		if !waitedFull {
			viol("returned-with-inflight", "Do returned %v after triggering stopped with %d iterations still executing (iteration %q finished later); the completion timeout is %v, so it cannot have expired", tRet-time.Duration(trigRet.Load()), inflightAtReturn, lateEnd, completion)
			return
		}
		o.AddObs("completion_timeouts_observed", 1)
		o.AddObs("stopped_with_inflight", 1)
	} else {
		if p.Blocking == "forever" && e.started.Load() > 0 && !setupFailed {
			viol("harness-forever", "bodies are held by the harness but none was in flight at return")
			return
		}
		if timeoutExpired && p.Blocking == "none" && p.Ending == "cancel-trigger-start" {
			viol("timeout-with-nothing-in-flight", "the run sat through its completion timeout (3 s) although no iteration was executing (%d started, all finished): a worker of the run never finished", e.started.Load())
			return
		}
		if p.Blocking == "gated" && e.started.Load() > 0 {
			o.AddObs("stopped_with_inflight", 1)
		}
	}
	if p.BoundMS > 0 {
		if nthStart.Load() == 0 {
			o.Inconc("the limit was not reached (%d started) (%s)", e.started.Load(), p.Desc)
			return
		}
		if over := tRet - time.Duration(nthStart.Load()); over > time.Duration(p.BoundMS)*time.Millisecond {
			viol("limit-reached-run-goes-on", "max-iterations %d was reached (the last allowed iteration started and finished at once), but Do returned only %v later - the remaining stages kept the run alive although nothing more can start (completion timeout %v, bound %d ms)", p.Spec.MaxIterations, over, completion, p.BoundMS)
			return
		}
		o.AddObs("limit_bound_checked", 1)
	}
	if p.Ending == "duration" && p.Blocking == "none" && p.Spec.MaxDurationMS <= 10 {
		if e.started.Load() != 0 {
			viol("requested-inside-guard", "max-duration is %d ms, not more than the 10 ms guard: triggering stops before it begins, yet %d iterations started", p.Spec.MaxDurationMS, e.started.Load())
			return
		}
		o.AddObs("guard_durations_checked", 1)
	}
	if p.Ending == "cancel-eval" && e.started.Load() > e.evalSum.Load() {
		viol("requested-after-cancel", "the run was cancelled inside rate evaluation %d; the evaluations before it requested %d iterations in total, %d iteration functions were invoked: iterations were requested after the cancellation", p.At, e.evalSum.Load(), e.started.Load())
		return
	}
	if p.Ending == "cancel-eval" {
		o.AddObs("cancel_eval_sums_checked", 1)
	}
	if p.Ending == "limit" && p.Blocking == "none" && uint64(e.started.Load()) != p.Spec.MaxIterations {
		viol("limit-count", "limit %d but %d iterations started", p.Spec.MaxIterations, e.started.Load())
		return
	}
	// a config-file stage that begins after the deadline has passed (it fell into the pause before it) is never started
	if strings.Contains(p.Desc, "in the pause between the stages") {
		for _, ev := range e.l.Events() {
			if ev.Kind == "body.start" && ev.S == "second" {
				if worstHiccup := stopWatch(ev.T); worstHiccup > 4*time.Millisecond {
					// the deadline is a timer like any other: fired late, it lets the next stage begin
					o.Inconc("timers of this process fired up to %v late during the run; the second stage is due 8-12 ms after the deadline (%s)", worstHiccup, p.Desc)
					return
				}
				viol("stage-started-after-deadline", "triggering stopped %v after it began, in the pause after the first stage; iteration %s nevertheless ran with the second stage's parameters (%v after the run began): a stage was started after the run had stopped requesting iterations", deadlineRem, ev.ID, ev.T)
				return
			}
		}
		o.AddObs("stage_pause_runs", 1)
	}
	// triggering stopped at the deadline f1 armed: no iteration starts a whole second later
	if deadlineOK {
		for _, ev := range e.l.Events() {
			if ev.Kind == "body.start" && ev.T > deadlineAt+time.Second {
				viol("started-after-deadline", "iteration %s started %v after the deadline that stops triggering (armed %v after triggering began)", ev.ID, ev.T-deadlineAt, deadlineRem)
				return
			}
		}
	}
	// nothing afterwards
	e.open()
	startedAtReturn := e.started.Load()
	time.Sleep(300 * time.Millisecond)
	if e.started.Load() != startedAtReturn {
		viol("iteration-after-return", "%d iterations started after Do returned", e.started.Load()-startedAtReturn)
		return
	}
	for _, ev := range e.l.Events() {
		if ev.Seq > r.DoReturnSeq && ev.Kind == "setup.end" {
			viol("setup-after-return", "the scenario's setup was still executing when Do returned (it ended %v later): code of the run outlived it", ev.T-r.TReturn)
			return
		}
		if ev.Seq > r.DoReturnSeq && strings.HasPrefix(ev.Kind, "out.") {
			viol("output-after-return", "output produced after Do returned: %q", ev.S)
			return
		}
		if ev.Seq > r.DoReturnSeq && ev.Kind == "body.start" {
			viol("iteration-after-return", "iteration %s started after Do returned", ev.ID)
			return
		}
	}
	if err := goleak.Find(opt); err != nil {
		msg := err.Error()
		if strings.Contains(msg, "form3tech-oss/f1/v2/internal") || strings.Contains(msg, "form3tech-oss/f1/v2/pkg") {
			viol("goroutine-left", "a goroutine of the run remains after Do returned and every iteration finished: %s", truncateStr(msg, 1500))
			return
		}
	}
	o.AddObs("goleak_checks", 1)
	o.Events = int64(e.l.Len())
	if e.started.Load() > 0 || deadlineOK {
		o.Sig("mode=%s:end=%s:block=%s:timeout=%v:procs=%d", p.Spec.Mode, p.Ending, p.Blocking, timeoutExpired, c.Procs)
	}
	o.Sample = map[string]any{"case": p.Desc, "started": e.started.Load(), "inflight_at_return": inflightAtReturn, "deadline_remaining_at_trigger_start": deadlineRem.String(), "completion_timeout_expired": timeoutExpired, "run_ms": (r.TReturn - r.TCall).Milliseconds()}
}

func truncateStr(s string, n int) string {
	if len(s) > n {
		return s[:n] + "…"
	}
	return s
}

func c05Script(c *core.Case, o *core.Outcome) {
	var p c05Params
	c.Params(&p)
	l := engine.NewLog()
	ctx, cancel := context.WithCancel(context.Background())
	defer cancel()
	var started atomic.Int64
	scenario := func(t *f1testing.T) f1testing.RunFn {
		return func(t *f1testing.T) {
			started.Add(1)
			time.Sleep(2 * time.Millisecond)
		}
	}
	key := "script:" + p.Script
	switch p.Script {
	case "late-tick":
		hc := engine.NewHookCtl(c.Seed)
		pk := hc.ParkNth("raterun.beforeDispatch", 1)
		var armed atomic.Bool
		var released atomic.Bool
		hc.OnSite("result.error.enter", func(int64) {
			if armed.Load() && released.CompareAndSwap(false, true) {
				// the main goroutine holds the result read lock: let the late tick take the write lock now
				pk.Release()
				time.Sleep(100 * time.Millisecond)
			}
		})
		hc.Install()
		defer hc.Uninstall()
		done := make(chan *engine.Run, 1)
		go func() { done <- engine.Execute(ctx, p.Spec, l, scenario, nil, nil) }()
		select {
		case <-pk.Arrived:
		case <-time.After(15 * time.Second):
			cancel()
			<-done
			o.Inconc("the progress runner never reached its first dispatch")
			return
		}
		// the runner is parked with a due tick; end the run
		cancel()
		time.Sleep(50 * time.Millisecond)
		armed.Store(true)
		select {
		case r := <-done:
			_ = r
			if released.Load() {
				// Stop returned while the runner was parked, the tick ran during teardown and happened not to wedge
				o.Violate(key, "the progress runner's Stop returned while a due tick had not been dispatched; the tick ran concurrently with teardown/summary")
				return
			}
			o.Violate(key, "Do returned while the progress runner was still parked before a dispatch: Stop did not wait for the runner")
			return
		case <-time.After(300 * time.Millisecond):
		}
		if released.Load() {
			// broken tree: the tick took the write lock between the nested read locks; Do is wedged (watchdog will classify)
			select {
			case <-done:
				o.Violate(key, "a progress tick ran after the progress runner's Stop had returned")
				return
			case <-time.After(20 * time.Second):
				o.Violate("deadlock-result-mutex", "Do is wedged: a progress tick dispatched after Stop returned took the result write lock between the nested read locks of teardown")
				return
			}
		}
		pk.Release()
		r := <-done
		if r.NewErr != nil {
			o.Inconc("harness: %v", r.NewErr)
			return
		}
		for _, ev := range l.Events() {
			if ev.Seq > r.DoReturnSeq && strings.HasPrefix(ev.Kind, "out.") {
				o.Violate(key, "output after Do returned: %q", ev.S)
				return
			}
		}
		for site, n := range hc.ReachedCounts() {
			o.AddObs("hook:"+site, n)
		}
	case "tick-at-finish":
		// the first progress report is held inside the result's read lock (hook result.progress.locked) while the run
		// is ended: the run's end (a writer of the result) queues behind the report; once the report is let go both
		// must get through and Do must return
		hc := engine.NewHookCtl(c.Seed)
		pk := hc.ParkNth("result.progress.locked", 1)
		hc.Install()
		defer hc.Uninstall()
		done := make(chan *engine.Run, 1)
		go func() { done <- engine.Execute(ctx, p.Spec, l, scenario, nil, nil) }()
		select {
		case <-pk.Arrived:
		case <-time.After(15 * time.Second):
			cancel()
			<-done
			o.Inconc("the progress report never reached the result")
			return
		}
		cancel()
		time.Sleep(300 * time.Millisecond)
		pk.Release()
		select {
		case r := <-done:
			if r.NewErr != nil {
				o.Inconc("harness: %v", r.NewErr)
				return
			}
		case <-time.After(20 * time.Second):
			o.Violate("deadlock-result-mutex", "Do is wedged: the run ended while a progress report held the result's read lock, and the report never got through after it was let go (a second read lock taken behind the queued writer)")
			return
		}
		for site, n := range hc.ReachedCounts() {
			o.AddObs("hook:"+site, n)
		}
	case "stop-path":
		// the pool's stop path (which still discards and accounts pending requests) is held at hook pool.stop.beforeDrain
		// after the run was ended: it is part of the run, Do may not return before it is through
		hc := engine.NewHookCtl(c.Seed)
		pk := hc.ParkNth("pool.stop.beforeDrain", 1)
		hc.Install()
		defer hc.Uninstall()
		done := make(chan *engine.Run, 1)
		go func() { done <- engine.Execute(ctx, p.Spec, l, scenario, nil, nil) }()
		if !waitUntil(15*time.Second, func() bool { return started.Load() >= 3 }) {
			cancel()
			<-done
			o.Inconc("no iteration started")
			return
		}
		cancel()
		select {
		case <-pk.Arrived:
		case <-time.After(15 * time.Second):
			<-done
			o.Inconc("the stop path was not reached")
			return
		}
		select {
		case <-done:
			o.Violate(key, "Do returned while the trigger pool's stop path had not finished (held before discarding the pending requests): part of the run was still running")
			return
		case <-time.After(700 * time.Millisecond):
		}
		pk.Release()
		select {
		case r := <-done:
			if r.NewErr != nil {
				o.Inconc("harness: %v", r.NewErr)
				return
			}
		case <-time.After(20 * time.Second):
			o.Violate("do-never-returns:"+p.Desc, "Do had not returned 20 s after the stop path was let go (%s)", p.Desc)
			return
		}
	case "zero-duration":
		// a max-duration of zero leaves no time to start anything, whatever duration the trigger has of its own (a staged
		// profile of one second here)
		spec := engine.Spec{Mode: "staged", Stages: "0s:5,1s:5", FreqMS: 100, Distribution: "none", Concurrency: 2, MaxDurationMS: 0, IgnoreDropped: true}
		if p.Spec.Mode == "users" {
			spec.Mode, spec.Stages = "gaussian", ""
			spec = engine.RateSpec("gaussian", 5, 100, 2)
			spec.MaxDurationMS, spec.IgnoreDropped = 0, true
		}
		done := make(chan *engine.Run, 1)
		go func() { done <- engine.Execute(ctx, spec, l, scenario, nil, nil) }()
		select {
		case r := <-done:
			if r.NewErr != nil {
				o.Inconc("harness: %v", r.NewErr)
				return
			}
		case <-time.After(20 * time.Second):
			cancel()
			<-done
			o.Violate(key, "a run with max-duration 0 was still going after 20 s (%s trigger)", spec.Mode)
			return
		}
		if n := started.Load(); n > 0 {
			o.Violate(key, "a run with max-duration 0 started %d iterations (%s trigger): triggering went on after the run's duration had elapsed", n, spec.Mode)
			return
		}
	case "slow-output":
		var slow atomic.Int64
		l.OutDelay = func(text string) {
			if strings.Contains(text, "progress") || strings.Contains(text, "✔") {
				slow.Add(1)
				time.Sleep(time.Duration(max(p.SlowMS, 600)) * time.Millisecond)
			}
		}
		done := make(chan *engine.Run, 1)
		go func() { done <- engine.Execute(ctx, p.Spec, l, scenario, nil, nil) }()
		time.Sleep(1250 * time.Millisecond)
		cancel()
		r := <-done
		if r.NewErr != nil {
			o.Inconc("harness: %v", r.NewErr)
			return
		}
		time.Sleep(time.Duration(max(p.SlowMS, 600)+200) * time.Millisecond)
		if slow.Load() == 0 {
			o.Inconc("no progress line was produced")
			return
		}
		for _, ev := range l.Events() {
			if ev.Seq > r.DoReturnSeq && strings.HasPrefix(ev.Kind, "out.") {
				o.Violate(key, "a progress report was still being produced when Do returned; it was written afterwards: %q", truncateStr(ev.S, 200))
				return
			}
		}
	}
	o.Events = int64(l.Len()) + started.Load()
	o.AddObs("scripts_formed", 1)
	o.Sig("script:%s:mode=%s", p.Script, p.Spec.Mode)
	o.Sample = map[string]any{"script": p.Desc, "events": l.Len(), "iterations": started.Load()}
}

// c05CLI: `run file <plan>` on the real command line; the plan's limits.max-duration (300-1000 ms) is far shorter than its
// single stage (8 s). Triggering stops at max-duration: an iteration that starts more than 3 s after it (by the bodies'
// own clock, counted from the first body) can only be one that a stopped run still requested; and the command returns.
func c05CLI(c *core.Case, o *core.Outcome) {
	var pp map[string]int
	c.Params(&pp)
	if pp["twice"] == 1 {
		c05CLITwice(c, o)
		return
	}
	st := fmt.Sprintf("- duration: %ds\n  mode: constant\n  rate: 2/20ms\n", pp["stage_s"])
	if pp["users"] == 1 {
		st = fmt.Sprintf("- duration: %ds\n  mode: users\n", pp["stage_s"])
	}
	y := strings.Replace(c05FileYAML(2, fmt.Sprintf("%dms", pp["max_ms"]), 0, st), "scenario: verifScenario", "scenario: cliPlan", 1)
	path, err := engine.TempYAML(y)
	if err != nil {
		o.Inconc("cannot write the plan: %v", err)
		return
	}
	defer os.Remove(path)
	var first, last atomic.Int64
	var n atomic.Int64
	base := time.Now()
	scenario := func(*f1testing.T) f1testing.RunFn {
		return func(*f1testing.T) {
			now := int64(time.Since(base)) + 1
			first.CompareAndSwap(0, now)
			last.Store(now)
			n.Add(1)
			time.Sleep(5 * time.Millisecond)
		}
	}
	quiet := slog.New(slog.NewTextHandler(io.Discard, nil))
	done := make(chan error, 1)
	go func() {
		done <- f1.New().WithLogger(quiet).Add("cliPlan", scenario).ExecuteWithArgs([]string{"run", "file", path})
	}()
	desc := fmt.Sprintf("run file <limits.max-duration %d ms, one %s stage of %d s>", pp["max_ms"], map[int]string{0: "constant", 1: "users"}[pp["users"]], pp["stage_s"])
	select {
	case rerr := <-done:
		if rerr != nil {
			o.Inconc("the run returned %v (%s)", rerr, desc)
			return
		}
	case <-time.After(40 * time.Second):
		o.Violate("cli-never-returns:"+desc, "the command had not returned after 40 s (%s)", desc)
		return
	}
	o.Events = n.Load()
	if n.Load() == 0 {
		o.Inconc("no iteration ran (%s)", desc)
		return
	}
	span := time.Duration(last.Load() - first.Load())
	if span > time.Duration(pp["max_ms"])*time.Millisecond+3*time.Second {
		o.Violate("cli-max-duration:"+desc, "the last of %d iterations started %v after the first one: the plan's max-duration of %d ms did not stop the run from requesting iterations (%s)", n.Load(), span, pp["max_ms"], desc)
		return
	}
	o.AddObs("runs_returned", 1)
	o.Sig("cli:file:users=%d", pp["users"])
	o.Sample = map[string]any{"case": desc, "iterations": n.Load(), "first_to_last_start": span.String()}
}

// c05CLITwice: the same f1 instance executes two command lines; 300 ms into the second one (max-duration 12 s) the process
// receives SIGINT, as from a terminal. The run stops requesting iterations: none starts more than 3 s after the signal, and
// the command returns long before its max-duration.
func c05CLITwice(c *core.Case, o *core.Outcome) {
	var n, afterSignal atomic.Int64
	var signalled atomic.Int64
	base := time.Now()
	inst := f1.New().WithLogger(slog.New(slog.NewTextHandler(io.Discard, nil))).Add("s", func(*f1testing.T) f1testing.RunFn {
		return func(*f1testing.T) {
			n.Add(1)
			if s := signalled.Load(); s != 0 && int64(time.Since(base))-s > int64(3*time.Second) {
				afterSignal.Add(1)
			}
			time.Sleep(5 * time.Millisecond)
		}
	})
	if err := inst.ExecuteWithArgs([]string{"run", "users", "-c", "2", "-d", "200ms", "s"}); err != nil {
		o.Inconc("the first execution returned %v", err)
		return
	}
	done := make(chan error, 1)
	go func() { done <- inst.ExecuteWithArgs([]string{"run", "users", "-c", "2", "-d", "12s", "s"}) }()
	time.Sleep(300 * time.Millisecond)
	signalled.Store(int64(time.Since(base)) + 1)
	_ = syscall.Kill(os.Getpid(), syscall.SIGINT)
	desc := "two executions of one instance, SIGINT 300 ms into the second (max-duration 12 s)"
	select {
	case <-done:
	case <-time.After(30 * time.Second):
		o.Violate("cli-twice-never-returns", "the second execution had not returned 30 s after the signal (%s)", desc)
		return
	}
	o.Events = n.Load()
	if afterSignal.Load() > 0 {
		o.Violate("cli-twice-ignored-signal", "%d iterations started more than 3 s after the process received SIGINT: the second execution of the instance went on requesting iterations (%s)", afterSignal.Load(), desc)
		return
	}
	o.AddObs("runs_returned", 1)
	o.Sig("cli:twice")
}
