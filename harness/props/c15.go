package props

import (
	"context"
	"fmt"
	"io"
	"log/slog"
	"os"
	"path/filepath"
	"sort"
	"strings"
	"sync"
	"sync/atomic"
	"syscall"
	"time"

	"github.com/prometheus/client_golang/prometheus"

	"github.com/form3tech-oss/f1/v2/internal/envsettings"
	"github.com/form3tech-oss/f1/v2/internal/metrics"
	"github.com/form3tech-oss/f1/v2/internal/options"
	"github.com/form3tech-oss/f1/v2/internal/trigger/api"
	"github.com/form3tech-oss/f1/v2/internal/trigger/file"
	"github.com/form3tech-oss/f1/v2/pkg/f1"
	"github.com/form3tech-oss/f1/v2/pkg/f1/scenarios"
	f1testing "github.com/form3tech-oss/f1/v2/pkg/f1/testing"
	"github.com/form3tech-oss/f1/v2/verifharness/core"
	"github.com/form3tech-oss/f1/v2/verifharness/engine"
)

// C15 — config-file plans keep exactly the unfinished stages, in order, defaults applied.

type c15Params struct {
	Plans int `json:"plans"`
}

type c15Stage struct {
	mode      string
	fields    map[string]string // effective field -> yaml scalar text
	atStage   map[string]bool   // field present at stage level (else default level)
	dur       time.Duration
	durStage  bool
	modeStage bool
	params    map[string]string
	paramsAt  string // stage | default | none
	conc      int    // users: effective concurrency
	concAt    string // stage | default | limits
}

func yamlQuote(s string) string { return "\"" + strings.ReplaceAll(s, "\"", "\\\"") + "\"" }

func init() {
	core.Register(&core.Property{
		ID: "C15",
		Rule: "parse: generated structured plans (1-6 stages of all five modes, every field placed at stage or default level, unique parameter maps, limits with optional tolerances, optional stage-start with the query instant before / inside each stage / on each boundary +-1ns / after the end) serialised to YAML; ParseConfigFile's result is compared with a reference computed from the structure (kept stages and order, inherited fields, tick interval, rate values, users concurrency, parameters, limits, total duration, tolerances). " +
			"run: 2-4 short real stages executed through the real stages worker with every stage's rate function wrapped: the environment is read during rate evaluation and from bodies (keys in descending stage order), and after the run (also when it is cut short mid-stage). " +
			"non-trivial = >= 2 stages with >= 1 inherited field and (for restarts) >= 1 dropped stage; distinct = distinct (#stages, modes present, restart position class, inheritance pattern) classes",
		Assumptions: []string{"run-time stages are 150-400 ms long; users stages are observed from bodies only"},
		Gen: func(tier string, seed uint64) []core.Case {
			var cs []core.Case
			n, per := 16, 320
			if tier == "thorough" {
				n, per = 100, 2000
			}
			for i := 0; i < n; i++ {
				cs = append(cs, core.MkCase("C15", "parse", i, seed, c15Params{Plans: per}))
			}
			nr := 8
			if tier == "thorough" {
				nr = 60
			}
			for i := 0; i < nr; i++ {
				c := core.MkCase("C15", "run", i, seed, nil)
				c.Solo = true
				c.Race = true
				c.TimeoutMS = 60000
				cs = append(cs, c)
			}
			// the file trigger's builder as the command line uses it: made first, asked for the trigger later; the file given
			// as a regular file or as a named pipe
			for i := 0; i < 4; i++ {
				c := core.MkCase("C15", "builder", i, seed, map[string]int{"fifo": i % 2, "late": i / 2})
				c.Solo = true
				c.TimeoutMS = 60000
				cs = append(cs, c)
			}
			// two shapes on purpose: a plan cut inside a stage whose successor has the same (inherited) parameters; a users
			// stage with more users than limits.concurrency followed by a rate stage that asks for more than it can run
			nsh := 2
			if tier == "thorough" {
				nsh = 8
			}
			for i := 0; i < 2*nsh; i++ {
				c := core.MkCase("C15", "run", 500+i, seed, c15RunParams{Shape: []string{"pair-cut", "users-then-rate"}[i%2]})
				c.Solo = true
				c.Race = i%4 < 2
				c.TimeoutMS = 60000
				cs = append(cs, c)
			}
			// the real command line (`run file <plan>`): parameter values reach the scenario exactly as the file spells them
			for i := 0; i < 2; i++ {
				c := core.MkCase("C15", "clirun", i, seed, map[string]int{"i": i})
				c.Solo = true
				c.TimeoutMS = 60000
				cs = append(cs, c)
			}
			return cs
		},
		Kinds:  map[string]core.RunFunc{"parse": c15Parse, "run": c15RunPlan, "builder": c15Builder, "clirun": c15CLIRun},
		Floors: map[string]int64{"plans": 3000, "plans_with_dropped_stage": 500, "boundary_instants": 300, "run_stage_evaluations": 100, "run_env_reads_in_bodies": 100},
	})
}

func c15Parse(c *core.Case, o *core.Outcome) {
	var p c15Params
	c.Params(&p)
	r := c.Rng("parse")
	// a long plan (a day in one-minute stages and more: well over 64 KiB of YAML) through the command's own
	// builder: every stage is there and the total is the sum
	{
		nst := 1300 + r.IntN(600)
		var y strings.Builder
		y.WriteString("scenario: verifScenario\nlimits:\n  max-duration: 48h\n  concurrency: 5\n  max-iterations: 0\n  ignore-dropped: true\ndefault:\n  distribution: none\n  jitter: 0\nstages:\n")
		var total time.Duration
		for k := 0; k < nst; k++ {
			d := time.Duration(30+r.IntN(90)) * time.Second
			total += d
			fmt.Fprintf(&y, "- duration: %s\n  mode: constant\n  rate: %d/s\n  parameters:\n    VERIF_LONG_PLAN_STAGE: \"%d\"\n", d, 1+k%50, k)
		}
		if path, terr := engine.TempYAML(y.String()); terr == nil {
			b := file.Rate(engine.NewOutput(engine.NewLog(), false))
			perr := b.Flags.Parse([]string{path})
			var trig *api.Trigger
			if perr == nil {
				trig, perr = b.New(b.Flags)
			}
			os.Remove(path)
			want := fmt.Sprintf("%d different stages", nst)
			if perr != nil || trig.Duration != total || trig.Description != want {
				got := ""
				var gd time.Duration
				if trig != nil {
					got, gd = trig.Description, trig.Duration
				}
				o.Violate("long-plan", "a config file of %d stages (%d bytes) built through the file command: error %v, description %q (want %q), total duration %v (want %v)", nst, y.Len(), perr, got, want, gd, total)
				return
			}
			o.AddObs("long_plans_through_builder", 1)
		}
	}
	for pi := 0; pi < p.Plans && o.Verdict != core.Violated; pi++ {
		ns := 1 + r.IntN(6)
		limConc := 1 + r.IntN(50)
		maxDur := time.Duration(1+r.IntN(3600)) * time.Second
		if r.IntN(12) == 0 {
			// zero is mapped like any other value
			maxDur = 0
		}
		maxIter := uint64(r.IntN(1000))
		ignore := r.IntN(2) == 0
		maxF, maxFR := -1, -1
		if r.IntN(2) == 0 {
			maxF = r.IntN(20)
		}
		if r.IntN(2) == 0 {
			maxFR = r.IntN(101)
		}
		scen := pick(r, "sc", "my scenario", "a-b_c")
		defFields := map[string]string{}
		var defParams map[string]string
		defConc := 0
		stages := make([]c15Stage, ns)
		var total time.Duration
		// defaults that every stage may inherit
		defDur := time.Duration(0)
		defMode := ""
		if r.IntN(3) == 0 {
			defDur = time.Duration(1+r.IntN(600))*time.Second + 777*time.Millisecond
		}
		if r.IntN(3) == 0 {
			defMode = pick(r, "constant", "users", "staged", "ramp", "gaussian")
		}
		if r.IntN(3) == 0 {
			defConc = 1 + r.IntN(20)
		}
		if r.IntN(3) == 0 {
			defParams = map[string]string{"VDEF": "d", "SHARED": "default"}
		}
		if r.IntN(3) == 0 {
			defFields["jitter"] = pick(r, "0", "40", "75")
		}
		inherited, modes := 0, map[string]bool{}
		for k := 0; k < ns; k++ {
			st := c15Stage{fields: map[string]string{}, atStage: map[string]bool{}}
			st.modeStage = defMode == "" || r.IntN(2) == 0
			if st.modeStage {
				st.mode = pick(r, "constant", "constant", "users", "staged", "ramp", "gaussian")
			} else {
				st.mode = defMode
				inherited++
			}
			modes[st.mode] = true
			st.durStage = defDur == 0 || r.IntN(2) == 0
			if st.durStage {
				st.dur = time.Duration(10+r.IntN(900))*time.Second + time.Duration(k+1)*time.Millisecond
				if (st.mode == "constant" || st.mode == "users") && r.IntN(8) == 0 {
					// a stage of no length is still a stage of the plan (kept, in order, when nothing says it is over)
					st.dur = 0
				}
			} else {
				st.dur = defDur
				inherited++
			}
			total += st.dur
			put := func(field, val string) {
				if dv, ok := defFields[field]; ok && r.IntN(2) == 0 {
					st.fields[field] = dv
					inherited++
					return
				}
				if _, ok := defFields[field]; !ok && r.IntN(3) == 0 {
					defFields[field] = val
					st.fields[field] = val
					inherited++
					return
				}
				st.fields[field] = val
				st.atStage[field] = true
			}
			switch st.mode {
			case "constant":
				put("rate", fmt.Sprintf("%d/%s", r.IntN(500), pick(r, "s", "100ms", "2s", "1m")))
				put("distribution", pick(r, "none", "none", "regular"))
			case "ramp":
				u := pick(r, "s", "100ms", "1s")
				a := r.IntN(200)
				put("start-rate", fmt.Sprintf("%d/%s", a, u))
				put("end-rate", fmt.Sprintf("%d/%s", a+1+r.IntN(200), u))
				put("distribution", "none")
			case "staged":
				x := r.IntN(100)
				put("stages", fmt.Sprintf("0s:%d,%ds:%d", x, 1000+r.IntN(1000), x))
				put("iteration-frequency", pick(r, "1s", "500ms", "100ms", "2s"))
				put("distribution", "none")
			case "gaussian":
				put("volume", fmt.Sprint(1000+r.IntN(100000)))
				put("repeat", pick(r, "1h", "30m", "24h"))
				put("iteration-frequency", pick(r, "1s", "10s"))
				put("peak", pick(r, "10m", "15m"))
				put("weights", pick(r, "", "1,2", "1.5"))
				put("standard-deviation", pick(r, "5m", "10m"))
				put("distribution", "none")
			case "users":
				switch {
				case r.IntN(2) == 0:
					st.conc, st.concAt = 1+r.IntN(30), "stage"
				case defConc > 0:
					st.conc, st.concAt = defConc, "default"
					inherited++
				default:
					st.conc, st.concAt = limConc, "limits"
					inherited++
				}
			}
			if st.mode != "users" {
				// jitter: an explicit 0 at stage level must win over a non-zero default
				if r.IntN(2) == 0 {
					st.fields["jitter"] = "0"
					st.atStage["jitter"] = true
				} else if dv, ok := defFields["jitter"]; ok {
					st.fields["jitter"] = dv
					inherited++
				} else {
					st.fields["jitter"] = "0" // neither level sets it: defaults to 0
				}
			}
			// a field of the ramp that conflicts with an inherited default must stay coherent: ramps need same unit
			if st.mode == "ramp" {
				su, eu := st.fields["start-rate"], st.fields["end-rate"]
				if su[strings.Index(su, "/"):] != eu[strings.Index(eu, "/"):] || su == eu || strings.Split(su, "/")[0] == strings.Split(eu, "/")[0] {
					u := "/s"
					st.fields["start-rate"], st.fields["end-rate"] = "3"+u, "9"+u
					st.atStage["start-rate"], st.atStage["end-rate"] = true, true
				}
			}
			switch {
			case r.IntN(8) == 0:
				// the stage says it has no parameters (an explicitly empty map): nothing is inherited
				st.params, st.paramsAt = map[string]string{}, "stage-empty"
			case r.IntN(2) == 0:
				st.params = map[string]string{"VSTAGE": fmt.Sprint(k), "SHARED": fmt.Sprintf("s%d", k)}
				st.paramsAt = "stage"
			case defParams != nil:
				st.params, st.paramsAt = defParams, "default"
				inherited++
			default:
				st.params, st.paramsAt = map[string]string{}, "none"
			}
			stages[k] = st
		}
		// serialise
		var y strings.Builder
		fmt.Fprintf(&y, "scenario: %s\nlimits:\n  max-duration: %s\n  concurrency: %d\n  max-iterations: %d\n  ignore-dropped: %v\n", yamlQuote(scen), maxDur, limConc, maxIter, ignore)
		if maxF >= 0 {
			fmt.Fprintf(&y, "  max-failures: %d\n", maxF)
		}
		if maxFR >= 0 {
			fmt.Fprintf(&y, "  max-failures-rate: %d\n", maxFR)
		}
		y.WriteString("default:\n")
		if defMode != "" {
			fmt.Fprintf(&y, "  mode: %s\n", defMode)
		}
		if defDur != 0 {
			fmt.Fprintf(&y, "  duration: %s\n", defDur)
		}
		if defConc > 0 {
			fmt.Fprintf(&y, "  concurrency: %d\n", defConc)
		}
		for _, f := range engine.SortedKeys(defFields) {
			fmt.Fprintf(&y, "  %s: %s\n", f, yamlQuoteIfNeeded(f, defFields[f]))
		}
		if defParams != nil {
			y.WriteString("  parameters:\n")
			for _, k := range engine.SortedKeys(defParams) {
				fmt.Fprintf(&y, "    %s: %s\n", k, yamlQuote(defParams[k]))
			}
		}
		if len(defFields) == 0 && defMode == "" && defDur == 0 && defConc == 0 && defParams == nil {
			y.WriteString("  jitter: 0\n")
		}
		// stage-start and now
		var stageStart *time.Time
		now := time.Date(2025, 6, 1, 12, 0, 0, 0, time.UTC)
		posClass := "nostart"
		if r.IntN(4) != 0 {
			ss := time.Date(2025, 5, 1+r.IntN(28), r.IntN(24), r.IntN(60), r.IntN(60), r.IntN(1000)*1_000_000, time.UTC)
			stageStart = &ss
			fmt.Fprintf(&y, "schedule:\n  stage-start: %s\n", ss.Format(time.RFC3339Nano))
			// choose now: before, inside stage j, boundary j +-1ns / exact, after end
			switch x := r.IntN(6); x {
			case 0:
				now = ss.Add(-time.Duration(1+r.IntN(100000)) * time.Second)
				posClass = "before"
			case 1:
				now = ss.Add(total + time.Duration(r.IntN(100000))*time.Second)
				posClass = "after"
			case 2, 3:
				j := r.IntN(ns)
				var cum time.Duration
				for q := 0; q < j; q++ {
					cum += stages[q].dur
				}
				now = ss.Add(cum + time.Duration(r.Int64N(int64(stages[j].dur)+1)))
				posClass = "inside"
			default:
				j := r.IntN(ns)
				var cum time.Duration
				for q := 0; q <= j; q++ {
					cum += stages[q].dur
				}
				now = ss.Add(cum + time.Duration(r.IntN(3)-1))
				posClass = "boundary"
				o.AddObs("boundary_instants", 1)
			}
		}
		y.WriteString("stages:\n")
		var cumW time.Duration
		brokenFinished := 0
		for _, st := range stages {
			cumW += st.dur
			// a stage that is already over is not part of the plan: whatever else it says is not looked at
			spoil := ""
			if stageStart != nil && !stageStart.Add(cumW).After(now) && r.IntN(3) == 0 {
				spoil = pick(r, "mode", "rate")
				brokenFinished++
			}
			first := true
			line := func(s string) {
				if first {
					y.WriteString("- " + s + "\n")
					first = false
				} else {
					y.WriteString("  " + s + "\n")
				}
			}
			if spoil == "mode" {
				line("mode: no-such-mode")
			} else if st.modeStage {
				line("mode: " + st.mode)
			}
			if st.durStage {
				line("duration: " + st.dur.String())
			}
			spoilt := false
			for _, f := range engine.SortedKeys(st.fields) {
				if st.atStage[f] {
					if spoil == "rate" && (f == "rate" || f == "start-rate" || f == "stages") && !spoilt {
						line(f + ": \"7/\"")
						spoilt = true
						continue
					}
					line(f + ": " + yamlQuoteIfNeeded(f, st.fields[f]))
				}
			}
			if spoil == "rate" && !spoilt {
				line("rate: \"7/\"")
				line("stages: \"x\"")
			}
			if st.mode == "users" && st.concAt == "stage" {
				line(fmt.Sprintf("concurrency: %d", st.conc))
			}
			if st.paramsAt == "stage-empty" {
				line("parameters: {}")
			}
			if st.paramsAt == "stage" {
				line("parameters:")
				for _, k := range engine.SortedKeys(st.params) {
					y.WriteString("    " + k + ": " + yamlQuote(st.params[k]) + "\n")
				}
			}
			if first {
				line("jitter: 0")
			}
		}
		yml := y.String()
		// a gaussian/rate stage that inherits "weights" etc. from defaults of another mode is fine; but a stage may
		// lack a required field when it was only put into defaults by a later stage - all fields are in the file, so it is valid.
		rs, err := file.ParseConfigFile([]byte(yml), now)
		key := fmt.Sprintf("plan:%d stages pos=%s", ns, posClass)
		if err != nil {
			o.Violate(key+":rejected", "valid generated config rejected: %v\n%s", err, yml)
			return
		}
		// reference: kept stages
		var kept []int
		var cum time.Duration
		for k := range stages {
			cum += stages[k].dur
			if stageStart == nil || stageStart.Add(cum).After(now) {
				kept = append(kept, k)
			}
		}
		fail := func(format string, a ...any) {
			o.Violate(key, format+"\nnow=%s\n%s", append(a, now.Format(time.RFC3339Nano), yml)...)
		}
		if len(rs.Stages) != len(kept) {
			fail("plan yields %d stages, expected the %d whose scheduled end is in the future (%v)", len(rs.Stages), len(kept), kept)
			return
		}
		td, mf, mfr := file.VerifTotals(rs)
		if td != total {
			fail("total duration %v, sum of all stage durations %v", td, total)
			return
		}
		wantMF, wantMFR := uint64(0), 0
		if maxF >= 0 {
			wantMF = uint64(maxF)
		}
		if maxFR >= 0 {
			wantMFR = maxFR
		}
		if rs.Scenario != scen || rs.MaxDuration != maxDur || rs.Concurrency != limConc || rs.MaxIterations != maxIter || rs.IgnoreDropped != ignore || mf != wantMF || mfr != wantMFR {
			fail("limits not mapped one-to-one: got scenario=%q max-duration=%v concurrency=%d max-iterations=%d ignore-dropped=%v max-failures=%d max-failures-rate=%d", rs.Scenario, rs.MaxDuration, rs.Concurrency, rs.MaxIterations, rs.IgnoreDropped, mf, mfr)
			return
		}
		if stageStart == nil {
			// the same document through the command's own builder (`run file <path>`): the trigger it yields
			// carries the limits as run options and the total duration
			if path, terr := engine.TempYAML(yml); terr == nil {
				b := file.Rate(engine.NewOutput(engine.NewLog(), false))
				perr := b.Flags.Parse([]string{path})
				var trig *api.Trigger
				if perr == nil {
					trig, perr = b.New(b.Flags)
				}
				os.Remove(path)
				if perr != nil {
					fail("the file builder rejected the document ParseConfigFile accepts: %v", perr)
					return
				}
				op := trig.Options
				if op.Scenario != scen || op.MaxDuration != maxDur || op.Concurrency != limConc || op.MaxIterations != maxIter || op.IgnoreDropped != ignore || op.MaxFailures != wantMF || op.MaxFailuresRate != wantMFR {
					fail("run options of the trigger built from the file are not the file's limits: scenario=%q max-duration=%v concurrency=%d max-iterations=%d ignore-dropped=%v max-failures=%d max-failures-rate=%d; the file says %q %v %d %d %v %d %d",
						op.Scenario, op.MaxDuration, op.Concurrency, op.MaxIterations, op.IgnoreDropped, op.MaxFailures, op.MaxFailuresRate, scen, maxDur, limConc, maxIter, ignore, wantMF, wantMFR)
					return
				}
				if trig.Duration != total {
					fail("the trigger built from the file reports total duration %v, the stage durations sum to %v", trig.Duration, total)
					return
				}
				o.AddObs("plans_through_builder", 1)
			}
		}
		for i, k := range kept {
			st, got := stages[k], rs.Stages[i]
			if got.StageDuration != st.dur {
				fail("position %d should be stage %d (duration %v), got a stage of duration %v: wrong stages kept or wrong order", i, k, st.dur, got.StageDuration)
				return
			}
			if fmt.Sprint(sortedMap(got.Params)) != fmt.Sprint(sortedMap(st.params)) {
				fail("stage %d parameters %v, expected %v (from %s level)", k, got.Params, st.params, st.paramsAt)
				return
			}
			if st.mode == "users" {
				if got.UsersConcurrency != st.conc {
					fail("users stage %d concurrency %d, expected %d (from %s)", k, got.UsersConcurrency, st.conc, st.concAt)
					return
				}
				continue
			}
			if got.UsersConcurrency != 0 || got.Rate == nil {
				fail("rate stage %d has users concurrency %d / nil rate", k, got.UsersConcurrency)
				return
			}
			var wantTick time.Duration
			switch st.mode {
			case "constant":
				wantTick = c15Unit(st.fields["rate"])
			case "ramp":
				wantTick = c15Unit(st.fields["start-rate"])
			default:
				wantTick, _ = time.ParseDuration(st.fields["iteration-frequency"])
			}
			if st.fields["distribution"] == "regular" && wantTick > 100*time.Millisecond {
				wantTick = 100 * time.Millisecond
			}
			if got.IterationDuration != wantTick {
				fail("stage %d (%s) tick interval %v, expected %v from its effective fields %v", k, st.mode, got.IterationDuration, wantTick, st.fields)
				return
			}
			t0 := time.Unix(1_750_000_000, 0)
			if st.fields["jitter"] != "0" {
				// jittered values are random: only callable and non-negative
				if v := got.Rate(t0); v < 0 {
					fail("stage %d with jitter %s evaluates to %d", k, st.fields["jitter"], v)
					return
				}
				continue
			}
			switch st.mode {
			case "constant":
				var n int
				fmt.Sscanf(st.fields["rate"], "%d/", &n)
				if st.fields["distribution"] == "none" {
					for q := 0; q < 3; q++ {
						if v := got.Rate(t0.Add(time.Duration(q) * wantTick)); v != n {
							fail("constant stage %d rate %q evaluates to %d", k, st.fields["rate"], v)
							return
						}
					}
				} else {
					steps := int(c15Unit(st.fields["rate"]) / (100 * time.Millisecond))
					if steps < 1 {
						steps = 1
					}
					sum := 0
					for q := 0; q < steps; q++ {
						sum += got.Rate(t0)
					}
					if sum != n {
						fail("constant stage %d rate %q distributed over %d sub-ticks sums to %d", k, st.fields["rate"], steps, sum)
						return
					}
				}
			case "staged":
				if st.fields["distribution"] != "none" {
					break
				}
				var x int
				fmt.Sscanf(st.fields["stages"], "0s:%d,", &x)
				if v := got.Rate(t0); v != x {
					fail("staged stage %d %q evaluates to %d, expected %d", k, st.fields["stages"], v, x)
					return
				}
			case "ramp":
				if st.fields["distribution"] != "none" {
					break
				}
				var a int
				fmt.Sscanf(st.fields["start-rate"], "%d/", &a)
				if v := got.Rate(t0); v != a {
					fail("ramp stage %d starts at %d, expected start-rate %d", k, v, a)
					return
				}
				var b int
				fmt.Sscanf(st.fields["end-rate"], "%d/", &b)
				for q := 1; q <= 4; q++ {
					off := st.dur * time.Duration(q) / 5
					want := float64(a) + float64(off)/float64(st.dur)*float64(b-a)
					if v := got.Rate(t0.Add(off)); float64(v) > want+1 || float64(v) < want-1 {
						fail("ramp stage %d (jitter 0) at %v evaluates to %d, the line from %d to %d gives %.2f", k, off, v, a, b, want)
						return
					}
				}
			case "gaussian":
				if v := got.Rate(t0); v < 0 {
					fail("gaussian stage %d evaluates to %d", k, v)
					return
				}
			}
		}
		o.Events++
		o.AddObs("plans", 1)
		if len(kept) < ns {
			o.AddObs("plans_with_dropped_stage", 1)
		}
		if brokenFinished > 0 {
			o.AddObs("plans_with_malformed_finished_stage", 1)
		}
		if ns >= 2 && inherited > 0 {
			ms := []string{}
			for m := range modes {
				ms = append(ms, m[:1])
			}
			sort.Strings(ms)
			o.Sig("n=%d:modes=%s:pos=%s:dropped=%v:inh=%d", ns, strings.Join(ms, ""), posClass, len(kept) < ns, min(inherited, 5))
		}
		if pi == 0 {
			o.Sample = map[string]any{"yaml": yml, "now": now.Format(time.RFC3339Nano), "kept_stages": kept, "total": total.String()}
		}
	}
}

func yamlQuoteIfNeeded(field, v string) string {
	switch field {
	case "volume", "jitter":
		return v
	}
	return yamlQuote(v)
}

func sortedMap(m map[string]string) []string {
	var out []string
	for _, k := range engine.SortedKeys(m) {
		out = append(out, k+"="+m[k])
	}
	return out
}

func c15Unit(rate string) time.Duration {
	u := rate[strings.Index(rate, "/")+1:]
	if u[0] < '0' || u[0] > '9' {
		u = "1" + u
	}
	d, _ := time.ParseDuration(u)
	return d
}

// ---------------------------------------------------------------- run-time part

type c15RunParams struct {
	Shape string `json:"shape,omitempty"` // "" | pair-cut | users-then-rate
}

func c15RunPlan(c *core.Case, o *core.Outcome) {
	var rp c15RunParams
	if len(c.P) > 0 && string(c.P) != "null" {
		c.Params(&rp)
	}
	r := c.Rng("run")
	ns := 2 + r.IntN(3)
	type rst struct {
		users   bool
		dur     time.Duration
		keys    map[string]string
		inherit bool // the stage has no parameters of its own: it takes the default section's
	}
	limConc, usersConc, rateSpec, bodySleep := 4, 2, "2/10ms", time.Millisecond
	defKeys := map[string]string{"VERIF_DEFAULT_A": "from-default", "VERIF_SHARED": "default-shared", "VERIF_DEFAULT_EMPTY": ""}
	withDefaults := r.IntN(2) == 0
	plan := make([]rst, ns)
	preKey := "VERIF_PRE_EXISTING"
	os.Setenv(preKey, "before")
	defer os.Unsetenv(preKey)
	var y strings.Builder
	cutShort := r.IntN(2) == 0
	cutStage := ns - 1
	if rp.Shape == "pair-cut" {
		ns = 3 + r.IntN(2)
		plan = make([]rst, ns)
		cutShort, withDefaults, cutStage = true, true, r.IntN(ns-1)
	}
	if rp.Shape == "users-then-rate" {
		ns = 2
		plan = make([]rst, ns)
		cutShort, cutStage = false, ns-1
		limConc, usersConc, rateSpec, bodySleep = 2, 6, "20/100ms", 40*time.Millisecond
	}
	var total time.Duration
	for k := range plan {
		plan[k] = rst{users: r.IntN(3) == 0, dur: time.Duration(150+r.IntN(250)) * time.Millisecond, keys: map[string]string{fmt.Sprintf("VERIF_STAGE_%d", k): fmt.Sprint(k), "VERIF_SHARED": fmt.Sprintf("stage-%d", k)}}
		if k == ns-1 || r.IntN(3) == 0 {
			plan[k].keys[preKey] = fmt.Sprintf("set-by-%d", k)
		}
		// names are exported as written (environment variable names are case sensitive)
		plan[k].keys[fmt.Sprintf("verif_Mixed_case_%d", k)] = fmt.Sprintf("mixed-%d", k)
		// a parameter the scenario itself overwrites while the stage runs: still the stage's to remove
		plan[k].keys[fmt.Sprintf("VERIF_REWRITTEN_%d", k)] = "as-configured"
		if r.IntN(2) == 0 {
			// a parameter whose value is the empty string is still a parameter: set, and empty
			plan[k].keys[fmt.Sprintf("VERIF_EMPTY_%d", k%2)] = ""
		}
		if r.IntN(3) == 0 {
			// a name the operating system refuses as an environment variable: reported, and the other
			// parameters of the stage are exported all the same
			plan[k].keys["VERIF=REFUSED"] = "x"
		}
		if withDefaults && r.IntN(2) == 0 {
			// several stages share the default section's parameters (rate stages: the evaluation is the observation point)
			plan[k].users, plan[k].inherit = false, true
			plan[k].keys = map[string]string{}
			for dk, dv := range defKeys {
				plan[k].keys[dk] = dv
			}
		}
		if rp.Shape == "pair-cut" && (k == cutStage || k == cutStage+1) && !plan[k].inherit {
			plan[k].users, plan[k].inherit = false, true
			plan[k].keys = map[string]string{}
			for dk, dv := range defKeys {
				plan[k].keys[dk] = dv
			}
		}
		if rp.Shape == "users-then-rate" {
			plan[k].users, plan[k].inherit = k == 0, false
			plan[k].keys = map[string]string{fmt.Sprintf("VERIF_STAGE_%d", k): fmt.Sprint(k)}
		}
		total += plan[k].dur
	}
	maxDur := total + 5*time.Second
	if cutShort {
		// stop in the middle of a stage (the last one, or the chosen one)
		maxDur = 0
		for k := 0; k < cutStage; k++ {
			maxDur += plan[k].dur
		}
		maxDur += plan[cutStage].dur / 2
	}
	fmt.Fprintf(&y, "scenario: verifScenario\nlimits:\n  max-duration: %s\n  concurrency: "+fmt.Sprint(limConc)+"\n  max-iterations: 0\n  ignore-dropped: true\ndefault:\n  distribution: none\n  jitter: 0\n", maxDur)
	if withDefaults {
		y.WriteString("  parameters:\n")
		for _, k := range engine.SortedKeys(defKeys) {
			fmt.Fprintf(&y, "    %s: %s\n", k, yamlQuote(defKeys[k]))
		}
	}
	y.WriteString("stages:\n")
	for _, st := range plan {
		if st.users {
			fmt.Fprintf(&y, "- duration: %s\n  mode: users\n  concurrency: %d\n", st.dur, usersConc)
		} else {
			fmt.Fprintf(&y, "- duration: %s\n  mode: constant\n  rate: %s\n", st.dur, rateSpec)
		}
		if st.inherit {
			continue
		}
		y.WriteString("  parameters:\n")
		for _, k := range engine.SortedKeys(st.keys) {
			fmt.Fprintf(&y, "    %s: %s\n", k, yamlQuote(st.keys[k]))
		}
	}
	rs, err := file.ParseConfigFile([]byte(y.String()), time.Now())
	if err != nil {
		o.Inconc("harness: plan rejected: %v\n%s", err, y.String())
		return
	}
	var mu sync.Mutex
	var problems []string
	note := func(format string, a ...any) {
		mu.Lock()
		if len(problems) < 5 {
			problems = append(problems, fmt.Sprintf(format, a...))
		}
		mu.Unlock()
	}
	var evalStages []int
	var evals, bodyReads atomic.Int64
	for i := range rs.Stages {
		if rs.Stages[i].Rate == nil {
			continue
		}
		i := i
		inner := rs.Stages[i].Rate
		rs.Stages[i].Rate = func(t time.Time) int {
			evals.Add(1)
			mu.Lock()
			evalStages = append(evalStages, i)
			mu.Unlock()
			for k, v := range plan[i].keys {
				if strings.Contains(k, "=") || strings.HasPrefix(k, "VERIF_REWRITTEN_") {
					continue
				}
				if got, set := os.LookupEnv(k); got != v || !set {
					note("during rate evaluation of stage %d parameter %s=%q (set=%v), expected %q", i, k, got, set, v)
				}
			}
			for j := range plan {
				if j != i {
					if _, set := os.LookupEnv(fmt.Sprintf("VERIF_STAGE_%d", j)); set {
						note("during rate evaluation of stage %d the parameter of stage %d is set", i, j)
					}
				}
			}
			return inner(t)
		}
	}
	seenInBodies := map[int]bool{}
	stageInflight := make([]atomic.Int64, len(plan))
	rewriteOnce := make([]sync.Once, len(plan))
	scenario := func(t *f1testing.T) f1testing.RunFn {
		return func(t *f1testing.T) {
			// descending stage order: seeing a later stage's key first and an earlier stage's key afterwards proves overlap
			var set []int
			for j := len(plan) - 1; j >= 0; j-- {
				if _, ok := os.LookupEnv(fmt.Sprintf("VERIF_STAGE_%d", j)); ok {
					set = append(set, j)
				}
			}
			bodyReads.Add(1)
			if len(set) == 1 {
				// the first body of a stage to get here overwrites one of the stage's parameters (long before the stage ends)
				rewriteOnce[set[0]].Do(func() {
					if rk := fmt.Sprintf("VERIF_REWRITTEN_%d", set[0]); os.Getenv(rk) == "as-configured" {
						os.Setenv(rk, "rewritten-by-the-scenario")
					}
				})
			}
			if len(set) == 1 && rp.Shape == "users-then-rate" {
				// bodies of one stage in flight at once: never more than the stage's pool (a users stage's own number of
				// users, limits.concurrency for a rate stage). One straggler is tolerated: the stage of a body is read from the
				// environment when it starts, and a worker of the stage before may have been held up between taking its work
				// and starting its body
				j := set[0]
				lim := int64(limConc)
				if plan[j].users {
					lim = int64(usersConc)
				}
				if n := stageInflight[j].Add(1); n > lim+1 {
					note("stage %d (users=%v) had %d iterations in flight at once, its pool is %d (limits.concurrency %d, users %d)", j, plan[j].users, n, lim, limConc, usersConc)
				}
				defer stageInflight[j].Add(-1)
			}
			if len(set) > 1 {
				note("a body saw the parameters of stages %v set at once", set)
			}
			if len(set) == 1 && plan[set[0]].users {
				// a users stage exports all its parameters before its bodies run; a mismatch counts only when a
				// second look 2 ms later still finds the same stage current (the stage may be ending right now)
				j := set[0]
				look := func() string {
					if _, ok := os.LookupEnv(fmt.Sprintf("VERIF_STAGE_%d", j)); !ok {
						return ""
					}
					for k, v := range plan[j].keys {
						if strings.Contains(k, "=") || strings.HasPrefix(k, "VERIF_REWRITTEN_") {
							continue
						}
						if got, ok := os.LookupEnv(k); !ok || got != v {
							return fmt.Sprintf("a body of users stage %d saw parameter %s=%q (set=%v), expected %q", j, k, got, ok, v)
						}
					}
					return ""
				}
				if look() != "" {
					time.Sleep(2 * time.Millisecond)
					if bad := look(); bad != "" {
						note("%s", bad)
					}
				}
			}
			mu.Lock()
			for _, j := range set {
				seenInBodies[j] = true
			}
			mu.Unlock()
			time.Sleep(bodySleep)
		}
	}
	l := engine.NewLog()
	reg := prometheus.NewRegistry()
	m := metrics.NewInstance(reg, true, nil)
	td, _, _ := file.VerifTotals(rs)
	trig := &api.Trigger{Trigger: file.VerifStagesWorker(rs), Description: "plan", Duration: td}
	sc := scenarios.New().Add(&scenarios.Scenario{Name: "verifScenario", ScenarioFn: scenario})
	fr, err := engine.NewRun(options.RunOptions{Scenario: "verifScenario", MaxDuration: rs.MaxDuration, Concurrency: rs.Concurrency, IgnoreDropped: true},
		sc, trig, 2*time.Second, envsettings.Settings{Log: envsettings.Log{FilePath: "/dev/null"}}, m, engine.NewOutput(l, false))
	if err != nil {
		o.Inconc("harness: NewRun: %v", err)
		return
	}
	_, err = fr.Do(context.Background())
	if err != nil {
		o.Inconc("harness: Do: %v", err)
		return
	}
	desc := fmt.Sprintf("stages=%d cutShort=%v cutStage=%d shape=%q plan=%v", ns, cutShort, cutStage, rp.Shape, plan)
	key := fmt.Sprintf("run-plan:stages=%d:cut=%v", ns, cutShort)
	mu.Lock()
	defer mu.Unlock()
	if len(problems) > 0 {
		o.Violate(key, "%s (%s)", joinProblems(problems), desc)
		return
	}
	for i := 1; i < len(evalStages); i++ {
		if evalStages[i] < evalStages[i-1] {
			o.Violate(key, "rate evaluation of stage %d after one of stage %d: stages did not execute strictly one after another (%s)", evalStages[i], evalStages[i-1], desc)
			return
		}
	}
	// every rate stage that should have run (all, or all but possibly none when cut) was evaluated, in order
	seen := map[int]bool{}
	for _, s := range evalStages {
		seen[s] = true
	}
	for i, st := range plan {
		if st.users {
			if !seenInBodies[i] && !(cutShort && i >= cutStage) {
				o.Violate(key, "users stage %d: no body ever saw its parameters (%s)", i, desc)
				return
			}
			continue
		}
		if !seen[i] && !(cutShort && i >= cutStage) {
			o.Violate(key, "rate stage %d was never evaluated (%s)", i, desc)
			return
		}
	}
	for j, st := range plan {
		if cutShort && j > cutStage {
			// never started: its parameters were never exported (the pre-existing variable is still the program's own)
			continue
		}
		for k := range st.keys {
			if v, ok := os.LookupEnv(k); ok {
				o.Violate(key, "after the run the parameter %s of stage %d is still set (%q) (%s)", k, j, v, desc)
				return
			}
		}
	}
	o.Events = evals.Load() + bodyReads.Load()
	o.AddObs("run_stage_evaluations", evals.Load())
	o.AddObs("run_env_reads_in_bodies", bodyReads.Load())
	o.Sig("run:stages=%d:cut=%v:shape=%s:users=%v", ns, cutShort, rp.Shape, func() bool {
		for _, s := range plan {
			if s.users {
				return true
			}
		}
		return false
	}())
	o.Sample = map[string]any{"yaml": y.String(), "rate_evaluations": evals.Load(), "body_reads": bodyReads.Load(), "stages_seen_in_bodies": len(seenInBodies)}
}

// c15Builder: file.Rate(output) is made at T0; the config (stage-start 1.8 s before T0, a first stage of 2 s, a second of
// 5 s) reaches it through a regular file or a named pipe; New is called at once or 450 ms later. The trigger it returns is
// the one ParseConfigFile gives for the same bytes at that moment: stages already over by then are not in it, the limits
// are the file's.
func c15Builder(c *core.Case, o *core.Outcome) {
	var pp map[string]int
	c.Params(&pp)
	l := engine.NewLog()
	b := file.Rate(engine.NewOutput(l, false))
	t0 := time.Now()
	y := fmt.Sprintf("scenario: verifScenario\nlimits:\n  max-duration: 1m\n  concurrency: 3\n  max-iterations: 77\n  ignore-dropped: true\nschedule:\n  stage-start: %s\ndefault:\n  distribution: none\n  jitter: 0\nstages:\n- duration: 2s\n  mode: constant\n  rate: 11/s\n- duration: 5s\n  mode: constant\n  rate: 22/s\n",
		t0.Add(-1800*time.Millisecond).UTC().Format(time.RFC3339Nano))
	dir := os.Getenv("TMPDIR")
	if dir == "" {
		dir = os.TempDir()
	}
	path := filepath.Join(dir, fmt.Sprintf("c15-builder-%d-%d", os.Getpid(), c.Seed%1000))
	desc := fmt.Sprintf("named pipe=%v, New called %d ms after the builder was made", pp["fifo"] == 1, 450*pp["late"])
	if pp["fifo"] == 1 {
		if err := syscall.Mkfifo(path, 0o600); err != nil {
			o.Inconc("cannot make a named pipe: %v", err)
			return
		}
		go func() {
			// the writer end: two chunks, as a shell's process substitution would deliver them
			f, err := os.OpenFile(path, os.O_WRONLY, 0)
			if err != nil {
				return
			}
			defer f.Close()
			_, _ = f.WriteString(y[:len(y)/2])
			time.Sleep(20 * time.Millisecond)
			_, _ = f.WriteString(y[len(y)/2:])
		}()
	} else if err := os.WriteFile(path, []byte(y), 0o600); err != nil {
		o.Inconc("cannot write the config: %v", err)
		return
	}
	defer os.Remove(path)
	if pp["late"] == 1 {
		time.Sleep(450 * time.Millisecond)
	}
	if err := b.Flags.Parse([]string{path}); err != nil {
		o.Inconc("harness: %v", err)
		return
	}
	type res struct {
		t   *api.Trigger
		err error
	}
	ch := make(chan res, 1)
	go func() { t, err := b.New(b.Flags); ch <- res{t, err} }()
	var got res
	select {
	case got = <-ch:
	case <-time.After(20 * time.Second):
		o.Violate("builder-hang:"+desc, "the builder did not return within 20 s (%s)", desc)
		return
	}
	ref, rerr := file.ParseConfigFile([]byte(y), time.Now())
	if rerr != nil {
		o.Inconc("harness: reference parse failed: %v", rerr)
		return
	}
	if got.err != nil || got.t == nil {
		o.Violate("builder-rejected:"+desc, "a config that ParseConfigFile accepts was rejected when given to the file trigger's builder: %v (%s)", got.err, desc)
		return
	}
	wantStages := 2 - pp["late"]
	if len(ref.Stages) != wantStages {
		o.Inconc("the reference parse kept %d stages, expected %d (machine too slow?) (%s)", len(ref.Stages), wantStages, desc)
		return
	}
	if want := fmt.Sprintf("%d different stages", wantStages); got.t.Description != want {
		o.Violate("builder-stages:"+desc, "the trigger is described as %q, the plan has %s at the moment New was called (the first stage ended 200 ms after the builder was made) (%s)", got.t.Description, want, desc)
		return
	}
	if got.t.Options.Scenario != "verifScenario" || got.t.Options.Concurrency != 3 || got.t.Options.MaxIterations != 77 || got.t.Options.MaxDuration != time.Minute || !got.t.Options.IgnoreDropped {
		o.Violate("builder-limits:"+desc, "the trigger's options %+v are not the file's limits (%s)", got.t.Options, desc)
		return
	}
	o.Events += 1
	o.AddObs("builder_cases", 1)
	o.Sig("builder:fifo=%d:late=%d", pp["fifo"], pp["late"])
}

// c15CLIRun: a two-stage plan given to the real command line; the parameter values contain characters that mean something
// to shells and template engines ($, ${...}, %, braces, backslashes). Every body looks its stage's parameters up: they are
// what the file says, byte for byte; after the run none of them is left.
func c15CLIRun(c *core.Case, o *core.Outcome) {
	var pp map[string]int
	c.Params(&pp)
	vals := [][2]string{
		{"VERIF_CLI_A", "pa$$word"}, {"VERIF_CLI_B", "$NOT_A_VAR.items[0]"}, {"VERIF_CLI_C", "tok-${HOME}-end"}, {"VERIF_CLI_D", "100$"},
		{"VERIF_CLI_E", "50%d{{.X}}"}, {"VERIF_CLI_F", `back\\slash`}, {"VERIF_CLI_G", "$"}, {"VERIF_CLI_H", "${}"},
	}
	if pp["i"] == 1 {
		vals = vals[4:]
		vals = append(vals, [2]string{"VERIF_CLI_A", "$HOME/$USER"}, [2]string{"VERIF_CLI_B", "a$1b"})
	}
	var stage [2]strings.Builder
	want := [2]map[string]string{{}, {}}
	for k, kv := range vals {
		fmt.Fprintf(&stage[k%2], "    %s: '%s'\n", kv[0], strings.ReplaceAll(kv[1], "'", "''"))
		want[k%2][kv[0]] = kv[1]
	}
	y := "scenario: cliPlan\nlimits:\n  max-duration: 10s\n  concurrency: 2\n  max-iterations: 0\n  ignore-dropped: true\ndefault:\n  distribution: none\n  jitter: 0\nstages:\n" +
		"- duration: 250ms\n  mode: constant\n  rate: 6/20ms\n  parameters:\n    VERIF_CLI_STAGE: one\n" + stage[0].String() +
		"- duration: 250ms\n  mode: users\n  parameters:\n    VERIF_CLI_STAGE: two\n" + stage[1].String()
	path, err := engine.TempYAML(y)
	if err != nil {
		o.Inconc("cannot write the plan: %v", err)
		return
	}
	defer os.Remove(path)
	var mu sync.Mutex
	var wrong []string
	var reads atomic.Int64
	scenario := func(*f1testing.T) f1testing.RunFn {
		return func(*f1testing.T) {
			st := os.Getenv("VERIF_CLI_STAGE")
			idx := map[string]int{"one": 0, "two": 1}
			k, ok := idx[st]
			if !ok {
				return
			}
			for name, w := range want[k] {
				got, set := os.LookupEnv(name)
				reads.Add(1)
				// (a second look: the stage may have ended in between)
				if (got != w || !set) && os.Getenv("VERIF_CLI_STAGE") == st {
					time.Sleep(2 * time.Millisecond)
					if g2, s2 := os.LookupEnv(name); (g2 != w || !s2) && os.Getenv("VERIF_CLI_STAGE") == st {
						mu.Lock()
						if len(wrong) < 5 {
							wrong = append(wrong, fmt.Sprintf("stage %s: %s=%q (set=%v), the file says %q", st, name, g2, s2, w))
						}
						mu.Unlock()
					}
				}
			}
			// (slow enough for the first stage's ticks of six to find both workers busy: the plan says ignore-dropped: true,
			// so the dropped requests do not fail the run)
			time.Sleep(25 * time.Millisecond)
		}
	}
	quiet := slog.New(slog.NewTextHandler(io.Discard, nil))
	rerr := f1.New().WithLogger(quiet).Add("cliPlan", scenario).ExecuteWithArgs([]string{"run", "file", path})
	o.Events = reads.Load()
	desc := fmt.Sprintf("run file <plan with %d parameters whose values contain $, %%, braces or backslashes>", len(vals))
	if rerr != nil {
		o.Violate("clirun-error:"+desc, "the command returned %v; the plan's limits say ignore-dropped: true and no iteration fails (%s)", rerr, desc)
		return
	}
	mu.Lock()
	defer mu.Unlock()
	if len(wrong) > 0 {
		o.Violate("clirun-values:"+desc, "parameters did not reach the scenario as the file spells them: %s (%s)", strings.Join(wrong, "; "), desc)
		return
	}
	for _, kv := range vals {
		if v, set := os.LookupEnv(kv[0]); set {
			o.Violate("clirun-left:"+desc, "%s=%q is still set after the run (%s)", kv[0], v, desc)
			return
		}
	}
	if reads.Load() < 8 {
		o.Inconc("only %d look-ups were made (%s)", reads.Load(), desc)
		return
	}
	o.AddObs("run_env_reads_in_bodies", reads.Load())
	o.Sig("clirun:%d", pp["i"])
	o.Sample = map[string]any{"case": desc, "look_ups": reads.Load()}
}
