// Command f1verif is the runtime-monitoring driver for the f1 properties C01..C20.
package main

import (
	"fmt"
	"os"
	"path/filepath"
	"runtime"
	"strconv"
	"strings"

	"github.com/form3tech-oss/f1/v2/verifharness/core"
	_ "github.com/form3tech-oss/f1/v2/verifharness/props"
)

func usage() int {
	fmt.Fprintln(os.Stderr, "usage: f1verif check <Cxx> quick|thorough | child <batch> <journal> | replay <file> | list")
	return 2
}

func newDriver(p *core.Property, tier string) *core.Driver {
	seed := uint64(1)
	if s := os.Getenv("VERIF_SEED"); s != "" {
		if v, err := strconv.ParseInt(s, 10, 64); err == nil {
			seed = uint64(v)
		}
	}
	jobs := runtime.NumCPU() / 2
	if s := os.Getenv("VERIF_JOBS"); s != "" {
		if v, err := strconv.Atoi(s); err == nil && v > 0 {
			jobs = v
		}
	}
	if jobs < 1 {
		jobs = 1
	}
	self, _ := os.Executable()
	return &core.Driver{
		Prop:     p,
		Tier:     tier,
		Seed:     seed,
		BinPlain: core.Getenv("VERIF_BIN_PLAIN", self),
		BinRace:  core.Getenv("VERIF_BIN_RACE", self),
		Jobs:     jobs,
		WorkDir:  filepath.Join(core.Getenv("VERIF_WORK", filepath.Join(core.VerifDir, ".build", "run")), fmt.Sprintf("%s-%d", p.ID, os.Getpid())),
	}
}

func main() {
	os.Exit(run())
}

func run() int {
	if len(os.Args) < 2 {
		return usage()
	}
	switch os.Args[1] {
	case "list":
		for _, id := range core.IDs() {
			fmt.Println(id)
		}
		return 0
	case "cases":
		// f1verif cases <Cxx> <tier> [substring]: prints the generated case list (debugging aid)
		p := core.Lookup(os.Args[2])
		d := newDriver(p, os.Args[3])
		for _, c := range p.Gen(os.Args[3], d.Seed) {
			line := string(core.MustJSON(c))
			if len(os.Args) < 5 || strings.Contains(line, os.Args[4]) {
				fmt.Println(line)
			}
		}
		return 0
	case "run1":
		// f1verif run1 <Cxx> <tier> <case id>: runs one case of the list in a child
		p := core.Lookup(os.Args[2])
		d := newDriver(p, os.Args[3])
		for _, c := range p.Gen(os.Args[3], d.Seed) {
			if c.ID == os.Args[4] {
				os.Setenv("VERIF_EVIDENCE_OFF", "1")
				return d.Check([]core.Case{c})
			}
		}
		fmt.Fprintln(os.Stderr, "no such case")
		return 2
	case "child":
		if len(os.Args) != 4 {
			return usage()
		}
		return core.ChildMain(os.Args[2], os.Args[3])
	case "check":
		if len(os.Args) < 3 {
			return usage()
		}
		p := core.Lookup(os.Args[2])
		if p == nil {
			fmt.Fprintln(os.Stderr, "unknown property", os.Args[2])
			return 2
		}
		tier := core.Getenv("VERIF_TIER", "quick")
		if len(os.Args) > 3 {
			tier = os.Args[3]
		}
		if tier != "quick" && tier != "thorough" {
			return usage()
		}
		return newDriver(p, tier).Check(nil)
	case "replay":
		if len(os.Args) != 3 {
			return usage()
		}
		c, tier, err := core.LoadReplay(os.Args[2])
		if err != nil {
			fmt.Fprintln(os.Stderr, "replay:", err)
			return 2
		}
		p := core.Lookup(c.Prop)
		if p == nil {
			fmt.Fprintln(os.Stderr, "unknown property", c.Prop)
			return 2
		}
		if tier == "" {
			tier = "quick"
		}
		return newDriver(p, tier).Check([]core.Case{*c})
	}
	return usage()
}
