package core

import (
	"bufio"
	"bytes"
	"encoding/json"
	"errors"
	"fmt"
	"os"
	"os/exec"
	"path/filepath"
	"regexp"
	"runtime"
	"runtime/pprof"
	"sort"
	"strconv"
	"strings"
	"sync"
	"syscall"
	"time"
)

// VerifDir is where evidence, replays and known_findings.txt live (the directory holding bin/check).
var VerifDir = Getenv("VERIF_DIR", "/verif")

type batch struct {
	idx   int
	cases []Case
	race  bool
	procs int
	env   map[string]string
}

type batchFile struct {
	Prop  string `json:"prop"`
	Cases []Case `json:"cases"`
}

// ---------------------------------------------------------------- child side

// ChildMain runs the cases of a batch file, journaling BEGIN/END lines.
func ChildMain(batchPath, journalPath string) int {
	raw, err := os.ReadFile(batchPath)
	if err != nil {
		fmt.Fprintln(os.Stderr, "child: read batch:", err)
		return 4
	}
	var bf batchFile
	if err := json.Unmarshal(raw, &bf); err != nil {
		fmt.Fprintln(os.Stderr, "child: parse batch:", err)
		return 4
	}
	p := Lookup(bf.Prop)
	if p == nil {
		fmt.Fprintln(os.Stderr, "child: unknown property", bf.Prop)
		return 4
	}
	j, err := os.OpenFile(journalPath, os.O_CREATE|os.O_WRONLY|os.O_APPEND, 0o644)
	if err != nil {
		fmt.Fprintln(os.Stderr, "child: journal:", err)
		return 4
	}
	defer j.Close()
	var jmu sync.Mutex
	writeJ := func(s string) {
		jmu.Lock()
		defer jmu.Unlock()
		j.WriteString(s + "\n")
	}
	for i := range bf.Cases {
		c := &bf.Cases[i]
		writeJ("BEGIN " + c.ID)
		timeout := time.Duration(c.TimeoutMS) * time.Millisecond
		if timeout <= 0 {
			timeout = 120 * time.Second
		}
		done := make(chan struct{})
		go func() {
			select {
			case <-done:
			case <-time.After(timeout):
				var buf bytes.Buffer
				pprof.Lookup("goroutine").WriteTo(&buf, 2)
				os.WriteFile(journalPath+".dump", buf.Bytes(), 0o644)
				writeJ("HANG " + c.ID)
				os.Exit(3)
			}
		}()
		start := time.Now()
		o := RunCaseInProcess(p, c)
		close(done)
		o.WallMS = time.Since(start).Milliseconds()
		b, err := json.Marshal(o)
		if err != nil {
			o.Sample = nil
			o.Detail += " (sample not serialisable: " + err.Error() + ")"
			b, _ = json.Marshal(o)
		}
		writeJ("END " + string(b))
	}
	writeJ("DONE")
	return 0
}

// ---------------------------------------------------------------- parent side

type raceReport struct {
	Key   string `json:"key"`
	Block string `json:"block"`
	F1    bool   `json:"f1_frames"`
	Count int    `json:"count"`
}

type runResult struct {
	outcomes []Outcome
	races    map[string]*raceReport
	crashes  int
	hangs    int
}

type Driver struct {
	Prop      *Property
	Tier      string
	Seed      uint64
	BinPlain  string
	BinRace   string
	Jobs      int
	WorkDir   string
	StartedAt time.Time
}

func envKey(m map[string]string) string {
	if len(m) == 0 {
		return ""
	}
	ks := make([]string, 0, len(m))
	for k := range m {
		ks = append(ks, k)
	}
	sort.Strings(ks)
	var sb strings.Builder
	for _, k := range ks {
		sb.WriteString(k + "=" + m[k] + ";")
	}
	return sb.String()
}

func (d *Driver) makeBatches(cases []Case) []*batch {
	groups := map[string][]Case{}
	var order []string
	var out []*batch
	for _, c := range cases {
		if c.Solo {
			out = append(out, &batch{cases: []Case{c}, race: c.Race, procs: c.Procs, env: c.Env})
			continue
		}
		k := fmt.Sprintf("%v|%d|%s", c.Race, c.Procs, envKey(c.Env))
		if _, ok := groups[k]; !ok {
			order = append(order, k)
		}
		groups[k] = append(groups[k], c)
	}
	for _, k := range order {
		g := groups[k]
		// aim for about 3 batches per job slot so that a slow batch does not dominate
		size := (len(g) + d.Jobs*3 - 1) / (d.Jobs * 3)
		if size < 1 {
			size = 1
		}
		for i := 0; i < len(g); i += size {
			e := i + size
			if e > len(g) {
				e = len(g)
			}
			out = append(out, &batch{cases: g[i:e], race: g[0].Race, procs: g[0].Procs, env: g[0].Env})
		}
	}
	for i, b := range out {
		b.idx = i
	}
	return out
}

// runBatch runs the cases of one batch in as many child processes as needed (a crash or hang
// ends a child; the remaining cases continue in a fresh one).
func (d *Driver) runBatch(b *batch, res *runResult, mu *sync.Mutex) {
	remaining := b.cases
	attempt := 0
	for len(remaining) > 0 {
		attempt++
		base := filepath.Join(d.WorkDir, fmt.Sprintf("b%04d-%d", b.idx, attempt))
		batchPath := base + ".json"
		journal := base + ".journal"
		stderrPath := base + ".stderr"
		raceBase := base + ".race"
		tmpDir := base + ".tmp"
		os.MkdirAll(tmpDir, 0o755)
		os.WriteFile(batchPath, MustJSON(batchFile{Prop: d.Prop.ID, Cases: remaining}), 0o644)
		bin := d.BinPlain
		if b.race {
			bin = d.BinRace
		}
		cmd := exec.Command(bin, "child", batchPath, journal)
		env := os.Environ()
		env = append(env, "TMPDIR="+tmpDir, "LOG_FILE_PATH=/dev/null", "VERIF_CHILD=1")
		if b.race {
			env = append(env, "GORACE=halt_on_error=0 log_path="+raceBase)
		}
		if b.procs > 0 {
			env = append(env, "GOMAXPROCS="+strconv.Itoa(b.procs))
		}
		for k, v := range b.env {
			env = append(env, k+"="+v)
		}
		cmd.Env = env
		ef, _ := os.Create(stderrPath)
		cmd.Stdout = ef
		cmd.Stderr = ef
		cmd.SysProcAttr = &syscall.SysProcAttr{Setpgid: true}
		var total time.Duration
		for _, c := range remaining {
			t := time.Duration(c.TimeoutMS) * time.Millisecond
			if t <= 0 {
				t = 120 * time.Second
			}
			total += t
		}
		total += 60 * time.Second
		err := cmd.Start()
		if err != nil {
			ef.Close()
			mu.Lock()
			for _, c := range remaining {
				res.outcomes = append(res.outcomes, Outcome{CaseID: c.ID, Kind: c.Kind, Verdict: Inconclusive, Detail: "harness: cannot start child: " + err.Error()})
			}
			mu.Unlock()
			return
		}
		waitCh := make(chan error, 1)
		go func() { waitCh <- cmd.Wait() }()
		outer := false
		select {
		case err = <-waitCh:
		case <-time.After(total):
			outer = true
			syscall.Kill(-cmd.Process.Pid, syscall.SIGQUIT)
			select {
			case err = <-waitCh:
			case <-time.After(10 * time.Second):
				syscall.Kill(-cmd.Process.Pid, syscall.SIGKILL)
				err = <-waitCh
			}
		}
		ef.Close()
		// parse journal
		done := map[string]Outcome{}
		var open string
		hang := false
		finished := false
		if jf, jerr := os.Open(journal); jerr == nil {
			sc := bufio.NewScanner(jf)
			sc.Buffer(make([]byte, 1<<20), 64<<20)
			for sc.Scan() {
				line := sc.Text()
				switch {
				case strings.HasPrefix(line, "BEGIN "):
					open = line[6:]
				case strings.HasPrefix(line, "END "):
					var o Outcome
					if json.Unmarshal([]byte(line[4:]), &o) == nil {
						done[o.CaseID] = o
					}
					open = ""
				case strings.HasPrefix(line, "HANG "):
					hang = true
					open = line[5:]
				case line == "DONE":
					finished = true
				}
			}
			jf.Close()
		}
		var next []Case
		mu.Lock()
		passedOpen := false
		for _, c := range remaining {
			if o, ok := done[c.ID]; ok {
				res.outcomes = append(res.outcomes, o)
				continue
			}
			if c.ID == open && !passedOpen {
				passedOpen = true
				o := Outcome{CaseID: c.ID, Kind: c.Kind}
				stderrTail := tailFile(stderrPath, 12000)
				switch {
				case hang:
					res.hangs++
					dump, _ := os.ReadFile(journal + ".dump")
					o.Verdict = Inconclusive
					o.Detail = "watchdog fired after " + strconv.Itoa(c.TimeoutMS) + " ms; dump not classified as deadlock"
					if d.Prop.HangViolation != nil {
						if v, key, why := d.Prop.HangViolation(&c, string(dump)); v {
							o.Verdict = Violated
							o.Key = key
							o.Detail = "hang classified as deadlock: " + why
						}
					}
					o.Detail += "\n--- goroutine dump (truncated) ---\n" + truncate(string(dump), 20000)
				case outer:
					res.hangs++
					o.Verdict = Inconclusive
					o.Detail = "outer watchdog killed the child\n" + stderrTail
				default:
					res.crashes++
					o.Verdict = Violated
					o.Key = "crash:" + crashKey(stderrTail)
					o.Detail = fmt.Sprintf("child process died (%v) while running this case\n%s", err, stderrTail)
				}
				res.outcomes = append(res.outcomes, o)
				continue
			}
			next = append(next, c)
		}
		mu.Unlock()
		if b.race {
			collectRaces(raceBase, res, mu)
		}
		_ = finished
		if len(next) == len(remaining) {
			// the child made no progress at all: do not loop forever
			mu.Lock()
			tail := tailFile(stderrPath, 4000)
			for _, c := range next {
				res.outcomes = append(res.outcomes, Outcome{CaseID: c.ID, Kind: c.Kind, Verdict: Inconclusive, Detail: "harness: child made no progress: " + firstLine(tail)})
			}
			mu.Unlock()
			next = nil
		}
		os.RemoveAll(tmpDir)
		remaining = next
	}
}

func truncate(s string, n int) string {
	if len(s) <= n {
		return s
	}
	return s[:n] + "\n…(truncated)"
}

func tailFile(path string, n int) string {
	b, err := os.ReadFile(path)
	if err != nil {
		return ""
	}
	if len(b) > n {
		// keep the head (panic message) and some tail
		return string(b[:n/2]) + "\n…\n" + string(b[len(b)-n/2:])
	}
	return string(b)
}

var crashRe = regexp.MustCompile(`(?m)^(panic: .*|fatal error: .*)$`)

func crashKey(stderr string) string {
	m := crashRe.FindString(stderr)
	if m == "" {
		return "unknown"
	}
	return firstLine(m)
}

var frameRe = regexp.MustCompile(`(?m)^  (\S+)\(\)$`)

func collectRaces(base string, res *runResult, mu *sync.Mutex) {
	files, _ := filepath.Glob(base + ".*")
	for _, f := range files {
		b, err := os.ReadFile(f)
		if err != nil {
			continue
		}
		blocks := strings.Split(string(b), "==================")
		for _, blk := range blocks {
			if !strings.Contains(blk, "WARNING: DATA RACE") {
				continue
			}
			// key: the first f1 frame of each of the two accesses
			parts := strings.SplitN(blk, "Previous ", 2)
			k1 := firstF1Frame(parts[0])
			k2 := ""
			if len(parts) > 1 {
				sub := parts[1]
				if i := strings.Index(sub, "\n\n"); i >= 0 {
					sub = sub[:i]
				}
				k2 = firstF1Frame(sub)
			}
			f1 := k1 != "" || k2 != ""
			ks := []string{k1, k2}
			sort.Strings(ks)
			key := "race:" + ks[0] + "|" + ks[1]
			mu.Lock()
			if r, ok := res.races[key]; ok {
				r.Count++
			} else {
				res.races[key] = &raceReport{Key: key, Block: truncate(blk, 6000), F1: f1, Count: 1}
			}
			mu.Unlock()
		}
	}
}

func firstF1Frame(s string) string {
	for _, m := range frameRe.FindAllStringSubmatch(s, -1) {
		fn := m[1]
		if strings.Contains(fn, "form3tech-oss/f1/v2/") && !strings.Contains(fn, "verifharness") {
			return strings.TrimPrefix(fn, "github.com/form3tech-oss/f1/v2/")
		}
	}
	return ""
}

// ---------------------------------------------------------------- known findings

type finding struct {
	Prop, Key, Text string
}

var findingRe = regexp.MustCompile(`^finding:\s+property=(\S+)\s+key="([^"]*)"\s*(.*)$`)

func loadFindings() []finding {
	var out []finding
	f, err := os.Open(filepath.Join(VerifDir, "known_findings.txt"))
	if err != nil {
		return nil
	}
	defer f.Close()
	sc := bufio.NewScanner(f)
	for sc.Scan() {
		if m := findingRe.FindStringSubmatch(strings.TrimSpace(sc.Text())); m != nil {
			out = append(out, finding{m[1], m[2], m[3]})
		}
	}
	return out
}

// ---------------------------------------------------------------- check

type inconcEntry struct {
	Case   string `json:"case"`
	Reason string `json:"reason"`
}

// Check runs a property's case list and writes evidence; returns the process exit code.
func (d *Driver) Check(only []Case) int {
	d.StartedAt = time.Now()
	p := d.Prop
	cases := only
	if cases == nil {
		cases = p.Gen(d.Tier, d.Seed)
	}
	for i := range cases {
		cases[i].Tier = d.Tier
		if cases[i].Prop == "" {
			cases[i].Prop = p.ID
		}
	}
	os.MkdirAll(d.WorkDir, 0o755)
	defer func() {
		if os.Getenv("VERIF_KEEP") == "" {
			os.RemoveAll(d.WorkDir)
		}
	}()
	batches := d.makeBatches(cases)
	res := &runResult{races: map[string]*raceReport{}}
	var mu sync.Mutex
	sem := make(chan struct{}, d.Jobs)
	var wg sync.WaitGroup
	// (the families appended last to a case list tend to hold the longest cases: start them first so that they do not
	// begin when everything else is over; outcomes are put back into case order below)
	for i := len(batches) - 1; i >= 0; i-- {
		b := batches[i]
		wg.Add(1)
		sem <- struct{}{}
		go func(b *batch) {
			defer wg.Done()
			defer func() { <-sem }()
			d.runBatch(b, res, &mu)
		}(b)
	}
	wg.Wait()

	// order outcomes like the case list
	pos := map[string]int{}
	caseByID := map[string]*Case{}
	for i := range cases {
		pos[cases[i].ID] = i
		caseByID[cases[i].ID] = &cases[i]
	}
	sort.SliceStable(res.outcomes, func(i, j int) bool { return pos[res.outcomes[i].CaseID] < pos[res.outcomes[j].CaseID] })

	findings := loadFindings()
	known := func(key string) *finding {
		for i := range findings {
			if findings[i].Prop == p.ID && findings[i].Key == key {
				return &findings[i]
			}
		}
		return nil
	}

	sigs := map[string]struct{}{}
	obs := map[string]int64{}
	byKind := map[string]int{}
	var events int64
	var samples []any
	sampleKinds := map[string]int{}
	var inconc []inconcEntry
	nHeld, nViol, nInc, nKnown := 0, 0, 0, 0
	exit := 0
	replayDir := filepath.Join(VerifDir, "replays")
	printedKnown := map[string]bool{}
	reruns := 0
	for i := range res.outcomes {
		o := &res.outcomes[i]
		byKind[o.Kind]++
		events += o.Events
		for _, s := range o.Sigs {
			sigs[o.Kind+":"+s] = struct{}{}
		}
		for k, v := range o.Obs {
			if strings.HasPrefix(k, "max:") {
				if v > obs[k] {
					obs[k] = v
				}
			} else {
				obs[k] += v
			}
		}
		// samples: prefer cases that exercised a non-trivial situation (they carry signatures)
		if o.Sample != nil && len(o.Sigs) > 0 && sampleKinds[o.Kind] < 2 && len(samples) < 10 {
			sampleKinds[o.Kind]++
			samples = append(samples, map[string]any{"case": o.CaseID, "verdict": o.Verdict, "events": o.Events, "observed": o.Sample, "signatures": o.Sigs})
		}
		switch o.Verdict {
		case Held:
			nHeld++
		case Inconclusive:
			nInc++
			if len(inconc) < 25 {
				inconc = append(inconc, inconcEntry{o.CaseID, firstLine(o.Detail)})
			}
		case Violated:
			if f := known(o.Key); f != nil {
				nKnown++
				if !printedKnown[o.Key] {
					printedKnown[o.Key] = true
					fmt.Printf("KNOWN-FINDING: property=%s %s [key=%s case=%s]\n", p.ID, f.Text, o.Key, o.CaseID)
				}
				continue
			}
			nViol++
			exit = 1
			os.MkdirAll(replayDir, 0o755)
			rp := filepath.Join(replayDir, sanitize(o.CaseID)+".json")
			os.WriteFile(rp, MustJSONIndent(map[string]any{"case": caseByID[o.CaseID], "outcome": o, "tier": d.Tier, "seed": d.Seed}), 0o644)
			fmt.Printf("VIOLATION property=%s replay=%s\n", p.ID, rp)
			repro := ""
			if only == nil && reruns < 3 && caseByID[o.CaseID] != nil && os.Getenv("VERIF_NO_RERUN") == "" {
				// re-run the case once from scratch in a fresh child: tells a deterministic witness from a schedule-dependent one
				reruns++
				rr := &runResult{races: map[string]*raceReport{}}
				cc := *caseByID[o.CaseID]
				d.runBatch(&batch{idx: 9000 + reruns, cases: []Case{cc}, race: cc.Race, procs: cc.Procs, env: cc.Env}, rr, &mu)
				repro = " reproduced_on_rerun=no(schedule-dependent)"
				if len(rr.outcomes) == 1 && rr.outcomes[0].Verdict == Violated {
					repro = " reproduced_on_rerun=yes"
				}
			}
			fmt.Printf("  case=%s key=%s%s\n  %s\n", o.CaseID, o.Key, repro, indent(truncate(o.Detail, 3000)))
		}
	}
	// race reports
	var raceList []*raceReport
	for _, r := range res.races {
		raceList = append(raceList, r)
	}
	sort.Slice(raceList, func(i, j int) bool { return raceList[i].Key < raceList[j].Key })
	raceF1, raceHarness := 0, 0
	for _, r := range raceList {
		if !r.F1 {
			raceHarness++
			fmt.Printf("NOTE harness-only data race report (not attributed to f1): %s\n%s\n", r.Key, indent(truncate(r.Block, 1500)))
			continue
		}
		raceF1++
		if f := known(r.Key); f != nil {
			nKnown++
			fmt.Printf("KNOWN-FINDING: property=%s %s [key=%s]\n", p.ID, f.Text, r.Key)
			continue
		}
		nViol++
		exit = 1
		os.MkdirAll(replayDir, 0o755)
		rp := filepath.Join(replayDir, sanitize(p.ID+"-"+r.Key)+".txt")
		os.WriteFile(rp, []byte(r.Block), 0o644)
		fmt.Printf("VIOLATION property=%s replay=%s\n", p.ID, rp)
		fmt.Printf("  data race in f1 frames (%d reports) key=%s\n%s\n", r.Count, r.Key, indent(truncate(r.Block, 3000)))
	}

	floorMet := true
	floorNotes := map[string]string{}
	for k, min := range p.Floors {
		if only != nil {
			break // replaying a single case: floors do not apply
		}
		if obs[k] < min {
			floorMet = false
			floorNotes[k] = fmt.Sprintf("observed %d < floor %d", obs[k], min)
		}
	}
	for i := range res.outcomes {
		o := &res.outcomes[i]
		if len(samples) < 3 && o.Sample != nil && sampleKinds[o.Kind] == 0 {
			sampleKinds[o.Kind]++
			samples = append(samples, map[string]any{"case": o.CaseID, "verdict": o.Verdict, "events": o.Events, "observed": o.Sample})
		}
	}
	if len(samples) == 0 && len(res.outcomes) > 0 {
		samples = append(samples, map[string]any{"case": res.outcomes[0].CaseID, "verdict": res.outcomes[0].Verdict})
	}
	wall := time.Since(d.StartedAt).Seconds()
	cov := map[string]any{
		"evaluations":          len(res.outcomes),
		"distinct_nontrivial":  len(sigs),
		"rule":                 p.Rule,
		"samples":              samples,
		"events_observed":      events,
		"observations":         obs,
		"cases_by_kind":        byKind,
		"held":                 nHeld,
		"inconclusive":         nInc,
		"inconclusive_cases":   inconc,
		"known_findings_hit":   nKnown,
		"race_reports_f1":      raceF1,
		"race_reports_harness": raceHarness,
		"child_crashes":        res.crashes,
		"child_hangs":          res.hangs,
		"floor_met":            floorMet,
		"floor_notes":          floorNotes,
		"gomaxprocs_parent":    runtime.GOMAXPROCS(0),
		"verdict_discipline":   "held = no monitor fired on the executions listed; nothing is proved beyond them",
		"signatures_sample":    sampleKeys(sigs, 12),
	}
	if p.Exhaustive != nil && p.Exhaustive(d.Tier) {
		cov["exhaustive"] = true
	}
	assumptions := p.Assumptions
	if assumptions == nil {
		assumptions = []string{}
	}
	assumptions = append(assumptions, "the verdict covers only the executions listed under coverage; nothing is proved beyond them")
	ev := map[string]any{
		"property_id": p.ID,
		"tier":        d.Tier,
		"seed":        d.Seed,
		"level":       "exploration",
		"coverage":    cov,
		"assumptions": assumptions,
		"wall_s":      wall,
		"violations":  nViol,
	}
	if only == nil && os.Getenv("VERIF_EVIDENCE_OFF") == "" {
		os.MkdirAll(filepath.Join(VerifDir, "evidence"), 0o755)
		evPath := filepath.Join(VerifDir, "evidence", p.ID+".json")
		tmp := evPath + fmt.Sprintf(".%d.tmp", os.Getpid())
		if err := os.WriteFile(tmp, MustJSONIndent(ev), 0o644); err == nil {
			os.Rename(tmp, evPath)
		}
	}
	status := "OK"
	if exit != 0 {
		status = "FAILED"
	}
	fmt.Printf("%s property=%s tier=%s seed=%d cases=%d held=%d inconclusive=%d violations=%d known=%d distinct_nontrivial=%d events=%d races_f1=%d floor_met=%v wall=%.1fs\n",
		status, p.ID, d.Tier, d.Seed, len(res.outcomes), nHeld, nInc, nViol, nKnown, len(sigs), events, raceF1, floorMet, wall)
	if !floorMet {
		fmt.Printf("NOTE coverage floor not met: %v\n", floorNotes)
	}
	if len(res.outcomes) == 0 || (events == 0 && len(sigs) == 0) {
		fmt.Println("ERROR: the run observed nothing")
		if exit == 0 {
			exit = 3
		}
	}
	return exit
}

func sampleKeys(m map[string]struct{}, n int) []string {
	ks := make([]string, 0, len(m))
	for k := range m {
		ks = append(ks, k)
	}
	sort.Strings(ks)
	if len(ks) > n {
		step := len(ks) / n
		var out []string
		for i := 0; i < len(ks) && len(out) < n; i += step {
			out = append(out, ks[i])
		}
		return out
	}
	return ks
}

func indent(s string) string {
	return strings.ReplaceAll(s, "\n", "\n  ")
}

func sanitize(s string) string {
	var sb strings.Builder
	for _, r := range s {
		switch {
		case r >= 'a' && r <= 'z', r >= 'A' && r <= 'Z', r >= '0' && r <= '9', r == '-', r == '_', r == '.':
			sb.WriteRune(r)
		default:
			sb.WriteByte('_')
		}
	}
	out := sb.String()
	if len(out) > 120 {
		out = out[:120]
	}
	return out
}

func MustJSONIndent(v any) []byte {
	b, err := json.MarshalIndent(v, "", " ")
	if err != nil {
		panic(err)
	}
	return b
}

// LoadReplay reads a replay file written by Check.
func LoadReplay(path string) (*Case, string, error) {
	b, err := os.ReadFile(path)
	if err != nil {
		return nil, "", err
	}
	var r struct {
		Case *Case  `json:"case"`
		Tier string `json:"tier"`
	}
	if err := json.Unmarshal(b, &r); err != nil {
		return nil, "", err
	}
	if r.Case == nil {
		return nil, "", errors.New("replay file has no case (a data-race report is replayed by re-running the check)")
	}
	return r.Case, r.Tier, nil
}
