// Package core holds the driver shared by all property checks: case and outcome types, the
// parent/child process model with journal and watchdog, race-log scanning, known findings,
// evidence and replay files.
package core

import (
	"encoding/json"
	"fmt"
	"hash/fnv"
	"math/rand/v2"
	"os"
	"runtime/debug"
	"sort"
	"strings"
)

const (
	Held         = "held"
	Violated     = "violated"
	Inconclusive = "inconclusive"
)

// Case is one unit of exploration. It is fully determined by (property, tier, seed, index).
type Case struct {
	ID        string            `json:"id"`
	Prop      string            `json:"prop"`
	Kind      string            `json:"kind"`
	Seed      uint64            `json:"seed"`
	P         json.RawMessage   `json:"p,omitempty"`
	Race      bool              `json:"race,omitempty"`
	Solo      bool              `json:"solo,omitempty"`
	Procs     int               `json:"procs,omitempty"`
	TimeoutMS int               `json:"timeout_ms,omitempty"`
	Env       map[string]string `json:"env,omitempty"`
	Tier      string            `json:"tier,omitempty"`
}

// Outcome is what a monitor concluded about one case, together with what it observed.
type Outcome struct {
	CaseID  string           `json:"case_id"`
	Kind    string           `json:"kind"`
	Verdict string           `json:"verdict"`
	Key     string           `json:"key,omitempty"` // witness key, matched against known_findings.txt
	Detail  string           `json:"detail,omitempty"`
	Events  int64            `json:"events"`
	Sigs    []string         `json:"sigs,omitempty"` // signatures of non-trivial situations actually observed
	Obs     map[string]int64 `json:"obs,omitempty"`
	Sample  any              `json:"sample,omitempty"`
	WallMS  int64            `json:"wall_ms"`
}

func (o *Outcome) AddObs(k string, n int64) {
	if o.Obs == nil {
		o.Obs = map[string]int64{}
	}
	o.Obs[k] += n
}

func (o *Outcome) MaxObs(k string, n int64) {
	if o.Obs == nil {
		o.Obs = map[string]int64{}
	}
	if n > o.Obs[k] {
		o.Obs[k] = n
	}
}

func (o *Outcome) Sig(format string, a ...any) {
	o.Sigs = append(o.Sigs, fmt.Sprintf(format, a...))
}

// Violate marks the outcome violated (the first violation's key and detail are kept).
func (o *Outcome) Violate(key, format string, a ...any) {
	if o.Verdict == Violated {
		return
	}
	o.Verdict = Violated
	o.Key = key
	o.Detail = fmt.Sprintf(format, a...)
	if len(o.Detail) > 6000 {
		o.Detail = o.Detail[:6000] + "…"
	}
}

// Inconclusive marks the outcome inconclusive unless it is already violated.
func (o *Outcome) Inconc(format string, a ...any) {
	if o.Verdict == Violated {
		return
	}
	o.Verdict = Inconclusive
	o.Detail = fmt.Sprintf(format, a...)
}

// RunFunc executes one case in the child process.
type RunFunc func(c *Case, o *Outcome)

// Property describes the check of one property.
type Property struct {
	ID          string
	Rule        string
	Assumptions []string
	Exhaustive  func(tier string) bool
	Gen         func(tier string, seed uint64) []Case
	Kinds       map[string]RunFunc
	// Floors: observation counters that must reach a minimum over the whole run for the
	// run to count as having exercised the property (reported in evidence as floor_met).
	Floors map[string]int64
	// HangViolation decides whether a watchdog dump of a hung case is a logical deadlock
	// (violation, with key) or merely inconclusive.
	HangViolation func(c *Case, dump string) (bool, string, string)
	// PanicOK lists kinds in which a panic escaping to the harness is expected to be
	// judged by the kind itself (the generic recover still reports it as a violation).
}

var registry = map[string]*Property{}

func Register(p *Property) { registry[p.ID] = p }

func Lookup(id string) *Property { return registry[id] }

func IDs() []string {
	ids := make([]string, 0, len(registry))
	for id := range registry {
		ids = append(ids, id)
	}
	sort.Strings(ids)
	return ids
}

// Rng returns the PCG stream of a case component.
func Rng(seed uint64, parts ...string) *rand.Rand {
	h := fnv.New64a()
	for _, p := range parts {
		h.Write([]byte(p))
		h.Write([]byte{0})
	}
	return rand.New(rand.NewPCG(seed, h.Sum64()))
}

func (c *Case) Rng(parts ...string) *rand.Rand {
	return Rng(c.Seed, append([]string{c.ID}, parts...)...)
}

// Params decodes the case parameters.
func (c *Case) Params(v any) {
	if len(c.P) == 0 {
		return
	}
	if err := json.Unmarshal(c.P, v); err != nil {
		panic(fmt.Sprintf("harness: bad params for %s: %v", c.ID, err))
	}
}

func MustJSON(v any) json.RawMessage {
	b, err := json.Marshal(v)
	if err != nil {
		panic(err)
	}
	return b
}

// MkCase builds a case with defaults.
func MkCase(prop, kind string, idx int, seed uint64, params any) Case {
	c := Case{
		ID:   fmt.Sprintf("%s/%s/%d", prop, kind, idx),
		Prop: prop,
		Kind: kind,
		Seed: seed,
	}
	if params != nil {
		c.P = MustJSON(params)
	}
	return c
}

// BeforeCase, when set, is called before every case in the child; the returned function runs after it.
var BeforeCase func(c *Case) func(o *Outcome)

// RunCaseInProcess runs one case with panic containment; used by the child.
func RunCaseInProcess(p *Property, c *Case) (o Outcome) {
	o = Outcome{CaseID: c.ID, Kind: c.Kind, Verdict: Held}
	if BeforeCase != nil {
		if after := BeforeCase(c); after != nil {
			defer func() { after(&o) }()
		}
	}
	fn := p.Kinds[c.Kind]
	if fn == nil {
		o.Verdict = Inconclusive
		o.Detail = "harness: unknown kind " + c.Kind
		return o
	}
	defer func() {
		if r := recover(); r != nil {
			st := string(debug.Stack())
			msg := fmt.Sprint(r)
			if strings.HasPrefix(msg, "harness:") {
				o.Verdict = Inconclusive
				o.Detail = msg + "\n" + st
				return
			}
			o.Verdict = Violated
			o.Key = "panic:" + firstLine(msg)
			o.Detail = "panic reached the harness goroutine: " + msg + "\n" + st
		}
	}()
	fn(c, &o)
	return o
}

func firstLine(s string) string {
	if i := strings.IndexByte(s, '\n'); i >= 0 {
		s = s[:i]
	}
	if len(s) > 160 {
		s = s[:160]
	}
	return s
}

func Getenv(k, def string) string {
	if v := os.Getenv(k); v != "" {
		return v
	}
	return def
}
