#!/usr/bin/env python3
"""Generates the verifier's own probe mutants (one oracle clause each) into /verif/seeded/own-*/.
Each edit is applied to a scratch worktree of /repo HEAD; it is kept only if the tree builds (with and
without the verif tag) and the repository's own suite still passes (bin/baseline)."""
import json, os, subprocess, sys, shutil

MUTANTS = [
 # name, property, file, old, new, summary
 ("C04-shared-handle-large-pool", "C04", "internal/workers/pool_manager.go",
  "\tfor i := range numWorkers {\n\t\tstatePool[i] = m.activeScenario.newIterationState()\n\t}\n",
  "\tfor i := range numWorkers {\n\t\tstatePool[i] = m.activeScenario.newIterationState()\n\t}\n\tif numWorkers > 2 {\n\t\t// reuse the first state for the last worker\n\t\tstatePool[numWorkers-1] = statePool[0]\n\t}\n",
  "with more than 200 workers the last worker shares the per-iteration handle of the first"),
 ("C05-guard-shortened", "C05", "internal/run/test_runner.go",
  "nextIterationWindow    = 10 * time.Millisecond", "nextIterationWindow    = 1 * time.Millisecond",
  "the guard before max-duration is 1 ms instead of the documented 10 ms"),
 ("C05-trigger-duration-ignored", "C05", "internal/run/test_runner.go",
  "\tif r.trigger.Duration > 0 && r.trigger.Duration < r.options.MaxDuration {\n\t\tduration = r.trigger.Duration\n\t}\n", "",
  "the trigger's own total duration no longer limits the run"),
 ("C05-metrics-goroutine-leak", "C05", "internal/run/test_runner.go",
  "\t\t\tcase <-metricsCloseCh:\n\t\t\t\treturn\n", "",
  "the metrics refresh goroutine only ends with the context, so it outlives a run whose context is never cancelled"),
 ("C16-setup-recorded-twice", "C16", "internal/workers/active_scenario.go",
  "\ts.m.RecordSetupResult(s.scenario.Name, metrics.Result(s.t.Failed()), duration)\n",
  "\ts.m.RecordSetupResult(s.scenario.Name, metrics.Result(s.t.Failed()), duration)\n\tif s.t.Failed() {\n\t\ts.m.RecordSetupResult(s.scenario.Name, metrics.FailedResult, duration)\n\t}\n",
  "a failed setup is recorded twice in the setup metric"),
 ("C06-cleanups-fifo", "C06", "pkg/f1/testing/t.go",
  "\tfor i := len(t.teardownStack) - 1; i >= 0; i-- {", "\tfor i := 0; i < len(t.teardownStack); i++ {",
  "cleanups run in registration order instead of last-registered-first"),
 ("C02-drops-not-in-progress", "C01", "internal/workers/active_scenario.go",
  "\ts.progress.Record(metrics.DroppedResult, instantDuration)\n", "\tif s.m.IterationMetricsEnabled {\n\t\treturn\n\t}\n\ts.progress.Record(metrics.DroppedResult, instantDuration)\n",
  "with iteration metrics enabled a dropped iteration is recorded in the metric only, not in the progress statistics"),
 ("C09-tick-capped", "C09", "internal/trigger/api/iteration_worker.go",
  "\t\t\t\titerationRate := rate(start)\n", "\t\t\t\titerationRate := min(rate(start), 1000)\n",
  "a tick's value is capped at 1000 before it is sent to the pool (the first tick is not)"),
 ("C15-default-overrides-stage", "C15", "internal/trigger/file/file_parser.go",
  "\t\ts.Stages = defaults.Stages\n\t}\n\tif s.IterationFrequency == nil {\n\t\tif defaults.IterationFrequency == nil {\n\t\t\treturn nil, fmt.Errorf(\"missing iteration-frequency at stage %d\", idx)\n\t\t}\n\t\ts.IterationFrequency = defaults.IterationFrequency\n\t}\n",
  "\t\ts.Stages = defaults.Stages\n\t}\n\tif defaults.IterationFrequency != nil {\n\t\ts.IterationFrequency = defaults.IterationFrequency\n\t}\n\tif s.IterationFrequency == nil {\n\t\treturn nil, fmt.Errorf(\"missing iteration-frequency at stage %d\", idx)\n\t}\n",
  "for staged stages the default section's iteration-frequency overrides the stage's own value"),
 ("C13-floor-instead-of-round", "C13", "internal/trigger/api/iteration_jitter.go",
  "math.Max(0, math.Round(proposed))", "math.Max(0, math.Floor(proposed))",
  "the jittered value is floored instead of rounded"),
 ("C12-random-cap-removed", "C12", "internal/trigger/api/iteration_distribution.go",
  "\t\t\tif currentRate > remainingRate {\n\t\t\t\tcurrentRate = remainingRate\n\t\t\t}\n", "",
  "the random distribution trusts the random source to stay below the remaining rate"),
 ("C10-zero-length-stage", "C10", "internal/trigger/staged/calculator.go",
  "now.Sub(s.start)+1 > s.stages[s.current].Duration", "now.Sub(s.start) > s.stages[s.current].Duration",
  "a stage is left only strictly after its duration, so a zero-length stage is interpolated (division by zero) and a boundary instant belongs to the earlier stage"),
 ("C18-restart-keeps-ticker", "C18", "internal/raterun/runner.go",
  "\ts.ticker.Stop()\n\ts.currentScheduleIndex = index\n\ts.ticker = time.NewTicker(s.list[s.currentScheduleIndex].Frequency)\n",
  "\tif index != s.currentScheduleIndex {\n\t\ts.ticker.Stop()\n\t\ts.ticker = time.NewTicker(s.list[index].Frequency)\n\t}\n\ts.currentScheduleIndex = index\n",
  "Restart while the first schedule is active keeps the running ticker (behaviourally equivalent for cadence; probes for false alarms)"),
 ("C07-failnow-relies-on-handler", "C07", "pkg/f1/testing/t.go",
  "func (t *T) FailNow() {\n\tif t.tearingDown {\n\t\tt.teardownFailed.Store(true)\n\t} else {\n\t\tt.failed.Store(true)\n\t}\n\n\tpanic(errFailNow)\n}",
  "func (t *T) FailNow() {\n\tif t.tearingDown {\n\t\tt.teardownFailed.Store(true)\n\t}\n\n\tpanic(errFailNow)\n}",
  "FailNow relies on the panic handler to mark the failure; behaviourally equivalent for the iteration's own handle since the F7 repair - probes for false alarms (expected: NOT caught)"),
 ("C03-users-extra-iteration", "C03", "internal/workers/continuous_pool.go",
  "\t\titeration, err := p.manager.NextIteration()\n\t\tif err != nil {\n\t\t\tp.maxIterationsReached()\n\t\t\treturn\n\t\t}\n",
  "\t\titeration, err := p.manager.NextIteration()\n\t\tif err != nil {\n\t\t\tp.maxIterationsReached()\n\t\t\tif p.numWorkers > 6 {\n\t\t\t\titerationState.t.Reset(\"0\")\n\t\t\t\tp.manager.activeScenario.Run(iterationState)\n\t\t\t}\n\t\t\treturn\n\t\t}\n",
  "with more than six users every worker runs one more iteration (with id 0) after the limit refused it"),
 ("C01-total-skips-failed-collect", "C01", "internal/progress/stats.go",
  "func (s *Stats) Total() Snapshot {\n\t_, lifetimeSuccessful := s.successfulIterationDurations.CollectLifetime()\n\t_, lifetimeFailed := s.failedIterationDurations.CollectLifetime()\n",
  "func (s *Stats) Total() Snapshot {\n\t_, lifetimeSuccessful := s.successfulIterationDurations.CollectLifetime()\n\tlifetimeFailed := s.failedIterationDurations.lifetime.Snapshot()\n",
  "the final totals do not collect the failed iterations of the last (unsnapshotted) period"),
]

def sh(cmd, **kw):
    return subprocess.run(cmd, shell=True, capture_output=True, text=True, **kw)

def main():
    only = sys.argv[1:]
    env = "export GOFLAGS=-mod=mod GOPROXY=off GOSUMDB=off GOTOOLCHAIN=local; "
    for name, prop, path, old, new, summary in MUTANTS:
        if only and name not in only:
            continue
        wt = f"/tmp/ownmut-{name}"
        sh(f"git -C /repo worktree remove --force {wt}; rm -rf {wt}")
        r = sh(f"git -C /repo worktree add -q --detach {wt} HEAD")
        try:
            src = open(f"{wt}/{path}").read()
            if src.count(old) != 1:
                print(f"{name}: pattern occurs {src.count(old)} times - skipped"); continue
            open(f"{wt}/{path}", "w").write(src.replace(old, new))
            b = sh(env + f"cd {wt} && gofmt -l {path}; go build ./... && go build -tags verif ./...")
            if b.returncode != 0:
                print(f"{name}: does not build: {b.stderr[:300]}"); continue
            ok = False
            for attempt in range(2):
                t = sh(f"VERIF_REPO={wt} /verif/bin/baseline")
                if t.returncode == 0:
                    ok = True; break
            if not ok:
                print(f"{name}: repository suite fails -> not a usable mutant: {t.stdout[-300:]}"); continue
            d = f"/verif/seeded/own-{name}"
            os.makedirs(d, exist_ok=True)
            open(f"{d}/patch.diff", "w").write(sh(f"git -C {wt} diff").stdout)
            json.dump({"property": prop, "summary": summary, "kind": "written by the verifier to probe one oracle clause (not independent)",
                       "confirmed": {"builds": "with and without -tags verif", "suite": "bin/baseline against the changed tree: all stable baseline tests pass"}},
                      open(f"{d}/meta.json", "w"), indent=1)
            print(f"{name}: stored")
        finally:
            sh(f"git -C /repo worktree remove --force {wt}; rm -rf {wt}")

main()
